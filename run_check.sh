#!/bin/bash
# usage: run_check.sh <Cxx> <quick|thorough>      run one property's check
#        run_check.sh replay <file>               re-execute a replay file
#        run_check.sh setup                       build + harness self-test
# exit 0 = property held on everything explored; 1 = violation (VIOLATION line
# printed); 2 = infrastructure trouble (build failure, watchdog, self-test) —
# never reported as a violation.
export GOFLAGS=-mod=mod GOPROXY=off GOSUMDB=off GOTOOLCHAIN=local
export VERIF_DIR="$(cd "$(dirname "$0")" && pwd)"
SIM="$VERIF_DIR/sim"
BIN="$VERIF_DIR/.build/bin"
mkdir -p "$BIN"

# The library is built from /repo's working tree. VERIF_REPO (a debugging aid,
# unset in every registered command) points the build at another copy of the
# tree, e.g. a snapshot, so that a long background run is not affected by
# patches applied to /repo meanwhile.
REPO="${VERIF_REPO:-/repo}"
MODFLAG=""
if [ "$REPO" != "/repo" ]; then
  sed "s#=> /repo#=> $REPO#" "$SIM/go.mod" > "$BIN/alt.$$.mod"
  cat "$REPO/go.sum" "$SIM/go.sum.extra" | sort -u > "$BIN/alt.$$.sum"
  MODFLAG="-modfile=$BIN/alt.$$.mod"
  trap 'rm -f "$BIN/alt.$$.mod" "$BIN/alt.$$.sum"' EXIT
fi

build() { # $1 = output name, $2.. = extra go build flags
  local out="$BIN/$1"; shift
  ( cd "$SIM" && cat "$REPO/go.sum" go.sum.extra | sort -u > go.sum && go build $MODFLAG -tags verif "$@" -o "$out" . ) 2>"$BIN/build.$$.log"
  local rc=$?
  if [ $rc -ne 0 ]; then
    echo "INFRA: build against /repo working tree failed:" >&2
    cat "$BIN/build.$$.log" >&2
    rm -f "$BIN/build.$$.log"
    exit 2
  fi
  rm -f "$BIN/build.$$.log"
}

case "$1" in
  setup)
    build simkv
    build simkv-race -race
    "$BIN/simkv" selftest || exit 2
    "$BIN/simkv-race" selftest -race || exit 2
    exit 0 ;;
  replay)
    f="$2"
    prop=$(basename "$f" | cut -d- -f1)
    if [ "$prop" = "C19" ]; then build simkv-replay -race; else build simkv-replay; fi
    "$BIN/simkv-replay" replay "$f"; exit $? ;;
  C19)
    build "simkv-$1" -race
    if [ "${2:-quick}" = "thorough" ] && command -v go1.26.8 >/dev/null 2>&1; then
      # second Go runtime (other scheduler, map seeds, race runtime): half of the workers use it
      ( cd "$SIM" && go1.26.8 build $MODFLAG -tags verif -race -o "$BIN/simkv-$1-alt" . ) 2>/dev/null && export SIMKV_ALT_BIN="$BIN/simkv-$1-alt"
    fi
    "$BIN/simkv-$1" check -prop "$1" -tier "${2:-quick}"; exit $? ;;
  C*)
    build "simkv-$1"
    "$BIN/simkv-$1" check -prop "$1" -tier "${2:-quick}"; exit $? ;;
  *)
    echo "usage: $0 <Cxx> <quick|thorough> | replay <file> | setup" >&2
    exit 2 ;;
esac
