#!/bin/bash
# usage: run_check.sh <Cxx> <quick|thorough>      run one property's check
#        run_check.sh replay <file>               re-execute a replay file
#        run_check.sh setup                       build + harness self-test
# exit 0 = property held on everything explored; 1 = violation (VIOLATION line
# printed); 2 = infrastructure trouble (build failure, watchdog, self-test) —
# never reported as a violation.
export GOFLAGS=-mod=mod GOPROXY=off GOSUMDB=off GOTOOLCHAIN=local
export VERIF_DIR="$(cd "$(dirname "$0")" && pwd)"
SIM="$VERIF_DIR/sim"
BIN="$VERIF_DIR/.build/bin"
mkdir -p "$BIN"

build() { # $1 = output name, $2.. = extra go build flags
  local out="$BIN/$1"; shift
  ( cd "$SIM" && cat /repo/go.sum go.sum.extra | sort -u > go.sum && go build -tags verif "$@" -o "$out" . ) 2>"$BIN/build.$$.log"
  local rc=$?
  if [ $rc -ne 0 ]; then
    echo "INFRA: build against /repo working tree failed:" >&2
    cat "$BIN/build.$$.log" >&2
    rm -f "$BIN/build.$$.log"
    exit 2
  fi
  rm -f "$BIN/build.$$.log"
}

case "$1" in
  setup)
    build simkv
    build simkv-race -race
    "$BIN/simkv" selftest || exit 2
    "$BIN/simkv-race" selftest -race || exit 2
    exit 0 ;;
  replay)
    f="$2"
    prop=$(basename "$f" | cut -d- -f1)
    if [ "$prop" = "C19" ]; then build simkv-replay -race; else build simkv-replay; fi
    exec "$BIN/simkv-replay" replay "$f" ;;
  C19)
    build "simkv-$1" -race
    if [ "${2:-quick}" = "thorough" ] && command -v go1.26.8 >/dev/null 2>&1; then
      # second Go runtime (other scheduler, map seeds, race runtime): half of the workers use it
      ( cd "$SIM" && go1.26.8 build -tags verif -race -o "$BIN/simkv-$1-alt" . ) 2>/dev/null && export SIMKV_ALT_BIN="$BIN/simkv-$1-alt"
    fi
    exec "$BIN/simkv-$1" check -prop "$1" -tier "${2:-quick}" ;;
  C*)
    build "simkv-$1"
    exec "$BIN/simkv-$1" check -prop "$1" -tier "${2:-quick}" ;;
  *)
    echo "usage: $0 <Cxx> <quick|thorough> | replay <file> | setup" >&2
    exit 2 ;;
esac
