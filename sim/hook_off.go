//go:build !verif

package main

const hooksBuilt = false

func installHook() {}
func removeHook()  {}
