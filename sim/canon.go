package main

import (
	"fmt"
	"math"
	"sort"
	"strconv"
	"strings"

	"github.com/c4pt0r/kvql"
)

// canon renders a column value by content, as C03 states it: text as bytes
// ([]byte == string), integers by value whatever their Go width, floats by
// value (never mixed with integers), lists element-wise whatever the Go slice
// type, JSON maps structurally.
func canon(v any) string {
	switch x := v.(type) {
	case nil:
		return "nil"
	case []byte:
		return "s:" + strconv.Quote(string(x))
	case string:
		return "s:" + strconv.Quote(x)
	case bool:
		if x {
			return "b:true"
		}
		return "b:false"
	case int:
		return "i:" + strconv.FormatInt(int64(x), 10)
	case int8:
		return "i:" + strconv.FormatInt(int64(x), 10)
	case int16:
		return "i:" + strconv.FormatInt(int64(x), 10)
	case int32:
		return "i:" + strconv.FormatInt(int64(x), 10)
	case int64:
		return "i:" + strconv.FormatInt(x, 10)
	case uint:
		return "i:" + strconv.FormatUint(uint64(x), 10)
	case uint16:
		return "i:" + strconv.FormatUint(uint64(x), 10)
	case uint32:
		return "i:" + strconv.FormatUint(uint64(x), 10)
	case uint64:
		return "i:" + strconv.FormatUint(x, 10)
	case float32:
		return canonFloat(float64(x))
	case float64:
		return canonFloat(x)
	case kvql.JSON:
		return canonMap(map[string]any(x))
	case map[string]any:
		return canonMap(x)
	case []any:
		parts := make([]string, len(x))
		for i, e := range x {
			parts[i] = canon(e)
		}
		return "l:[" + strings.Join(parts, ",") + "]"
	case []string:
		parts := make([]string, len(x))
		for i, e := range x {
			parts[i] = canon(e)
		}
		return "l:[" + strings.Join(parts, ",") + "]"
	case [][]byte:
		parts := make([]string, len(x))
		for i, e := range x {
			parts[i] = canon(e)
		}
		return "l:[" + strings.Join(parts, ",") + "]"
	case []int64:
		parts := make([]string, len(x))
		for i, e := range x {
			parts[i] = canon(e)
		}
		return "l:[" + strings.Join(parts, ",") + "]"
	case []int:
		parts := make([]string, len(x))
		for i, e := range x {
			parts[i] = canon(e)
		}
		return "l:[" + strings.Join(parts, ",") + "]"
	case []float64:
		parts := make([]string, len(x))
		for i, e := range x {
			parts[i] = canon(e)
		}
		return "l:[" + strings.Join(parts, ",") + "]"
	default:
		return fmt.Sprintf("?%T:%v", v, v)
	}
}

func canonFloat(f float64) string {
	if math.IsNaN(f) {
		return "f:NaN"
	}
	return "f:" + strconv.FormatFloat(f, 'g', -1, 64)
}

func canonMap(m map[string]any) string {
	keys := make([]string, 0, len(m))
	for k := range m {
		keys = append(keys, k)
	}
	sort.Strings(keys)
	parts := make([]string, len(keys))
	for i, k := range keys {
		parts[i] = strconv.Quote(k) + ":" + canon(m[k])
	}
	return "j:{" + strings.Join(parts, ",") + "}"
}

func canonRow(cols []kvql.Column) []string {
	out := make([]string, len(cols))
	for i, c := range cols {
		out[i] = canon(c)
	}
	return out
}
