package main

import (
	"fmt"
	"strconv"
	"strings"
)

// ---------------------------------------------------------------------------
// Typed statement generator over the full language (DESIGN.md Appendix A).
// Used by C03 and C05. The generator keeps an AST so that (a) aliases can be
// expanded textually for C05's abbreviation check and (b) the shrinker can
// replace subtrees. Statements the library rejects are counted and skipped by
// the checks, never judged.
// ---------------------------------------------------------------------------

type GType int

const (
	TS GType = iota // text
	TN              // number
	TB              // boolean
	TL              // list
	TJ              // json
)

type GExpr struct {
	Kind string   `json:"k"` // key value str int float bool bin call index alias not in between
	T    GType    `json:"t"`
	Op   string   `json:"op,omitempty"`
	S    string   `json:"s,omitempty"` // literal text / function name / alias name / index
	Args []*GExpr `json:"a,omitempty"`
	// number kind for uniform-type bookkeeping: "i", "f" or "" (unknown/mixed)
	NK string `json:"nk,omitempty"`
}

// Render produces the statement text. When expand is non-nil every alias use
// is replaced by its parenthesised definition.
func (e *GExpr) Render(expand map[string]*GExpr) string {
	switch e.Kind {
	case "key":
		return "key"
	case "value":
		return "value"
	case "str":
		return quote(e.S)
	case "int", "float", "bool":
		return e.S
	case "alias":
		if expand != nil {
			if d, ok := expand[e.S]; ok {
				s := d.Render(expand)
				if d.Kind == "bin" || d.Kind == "in" || d.Kind == "between" {
					return s // already parenthesised
				}
				return "(" + s + ")"
			}
		}
		return e.S
	case "bin":
		return "(" + e.Args[0].Render(expand) + " " + e.Op + " " + e.Args[1].Render(expand) + ")"
	case "not":
		return "!(" + e.Args[0].Render(expand) + ")"
	case "call":
		parts := make([]string, len(e.Args))
		for i, a := range e.Args {
			parts[i] = a.Render(expand)
		}
		return e.S + "(" + strings.Join(parts, ", ") + ")"
	case "index":
		return e.Args[0].Render(expand) + "[" + e.S + "]"
	case "in":
		if e.Op == "list" {
			parts := make([]string, len(e.Args)-1)
			for i, a := range e.Args[1:] {
				parts[i] = a.Render(expand)
			}
			return "(" + e.Args[0].Render(expand) + " in (" + strings.Join(parts, ", ") + "))"
		}
		return "(" + e.Args[0].Render(expand) + " in " + e.Args[1].Render(expand) + ")"
	case "between":
		return "(" + e.Args[0].Render(expand) + " between " + e.Args[1].Render(expand) + " and " + e.Args[2].Render(expand) + ")"
	}
	return "?"
}

func (e *GExpr) usesAlias() bool {
	if e.Kind == "alias" {
		return true
	}
	for _, a := range e.Args {
		if a.usesAlias() {
			return true
		}
	}
	return false
}

func (e *GExpr) countAlias(name string) int {
	n := 0
	if e.Kind == "alias" && e.S == name {
		n++
	}
	for _, a := range e.Args {
		n += a.countAlias(name)
	}
	return n
}

func (e *GExpr) hasCall(names ...string) bool {
	if e.Kind == "call" {
		for _, n := range names {
			if e.S == n {
				return true
			}
		}
	}
	for _, a := range e.Args {
		if a.hasCall(names...) {
			return true
		}
	}
	return false
}

type GField struct {
	E     *GExpr `json:"e"`
	Alias string `json:"as,omitempty"`
	Agg   bool   `json:"agg,omitempty"`
}

type GOrder struct {
	Field int  `json:"f"` // index into Fields
	Desc  bool `json:"desc,omitempty"`
	Dir   bool `json:"dir,omitempty"` // write asc/desc explicitly
}

type GSelect struct {
	Star     bool     `json:"star,omitempty"`
	Fields   []GField `json:"fields,omitempty"`
	Where    *GExpr   `json:"where"`
	Order    []GOrder `json:"order,omitempty"`
	Group    []int    `json:"group,omitempty"` // indexes of fields grouped by
	HasLimit bool     `json:"has_limit,omitempty"`
	Off      int      `json:"off,omitempty"`
	Cnt      int      `json:"cnt,omitempty"`
	Delete   bool     `json:"delete,omitempty"` // render as DELETE WHERE … [LIMIT]
	// WhereOnly: the statement form without the SELECT keyword (`where …` means `select * where …`)
	WhereOnly bool `json:"where_only,omitempty"`
}

func (q *GSelect) aliasMap() map[string]*GExpr {
	m := map[string]*GExpr{}
	for _, f := range q.Fields {
		if f.Alias != "" {
			m[f.Alias] = f.E
		}
	}
	return m
}

// fieldRef renders how ORDER BY / GROUP BY name field i.
func (q *GSelect) fieldRef(i int, expanded bool) string {
	if q.Star {
		// `select *` announces the fields KEY and VALUE
		if i == 0 {
			return "key"
		}
		return "value"
	}
	f := q.Fields[i]
	if f.Alias != "" && !expanded {
		return f.Alias
	}
	var exp map[string]*GExpr
	if expanded {
		exp = q.aliasMap()
	}
	return f.E.Render(exp)
}

// Render renders the statement. expanded=true yields Q′: aliases removed from
// the field list and every use replaced by the definition.
func (q *GSelect) Render(expanded bool) string {
	var exp map[string]*GExpr
	if expanded {
		exp = q.aliasMap()
	}
	var sb strings.Builder
	if q.Delete {
		sb.WriteString("delete where ")
		sb.WriteString(q.Where.Render(exp))
	} else {
		if q.WhereOnly && q.Star {
			// nothing: the WHERE-only form
		} else if q.Star {
			sb.WriteString("select *")
		} else {
			sb.WriteString("select ")
			for i, f := range q.Fields {
				if i > 0 {
					sb.WriteString(", ")
				}
				sb.WriteString(f.E.Render(exp))
				if f.Alias != "" && !expanded {
					sb.WriteString(" as " + f.Alias)
				}
			}
		}
		if q.WhereOnly && q.Star {
			sb.WriteString("where ")
		} else {
			sb.WriteString(" where ")
		}
		sb.WriteString(q.Where.Render(exp))
		if len(q.Order) > 0 {
			sb.WriteString(" order by ")
			for i, o := range q.Order {
				if i > 0 {
					sb.WriteString(", ")
				}
				sb.WriteString(q.fieldRef(o.Field, expanded))
				if o.Desc {
					sb.WriteString(" desc")
				} else if o.Dir {
					sb.WriteString(" asc")
				}
			}
		}
		if len(q.Group) > 0 {
			sb.WriteString(" group by ")
			for i, g := range q.Group {
				if i > 0 {
					sb.WriteString(", ")
				}
				sb.WriteString(q.fieldRef(g, expanded))
			}
		}
	}
	if q.HasLimit {
		if q.Off > 0 {
			sb.WriteString(fmt.Sprintf(" limit %d, %d", q.Off, q.Cnt))
		} else {
			sb.WriteString(fmt.Sprintf(" limit %d", q.Cnt))
		}
	}
	return sb.String()
}

// --- generator -------------------------------------------------------------

type galias struct {
	name string
	t    GType
	nk   string
}

type Gen struct {
	r       *Rng
	feat    map[string]bool
	aliases []galias // aliases that may be referenced at the current point
	noValue bool
	noKey   bool
	style   string // store style hint: decides which value conversions are sensible
	safeDiv bool   // only divide by non-zero literals (no data-dependent evaluation errors)
	// keyListWhere: the WHERE clause is a bare literal key set (IN list or OR of
	// equalities, some keys missing from any store), optionally with one alias atom
	// conjoined: the multi-get access path with its short, uneven chunks
	keyListWhere int // 0 off, 1 bare, 2 with the alias atom
}

var allFeatures = []string{"cmp", "prefix-regexp", "in-literal", "in-list", "between", "logic", "arith-int", "arith-float",
	"strfuncs", "convfuncs", "listfuncs", "json", "index", "distance", "alias-where", "alias-arg", "alias-chain",
	"order", "group", "agg-arith", "limit", "mget-path", "range-path", "prefix-path", "not", "substr", "join"}

func newGen(r *Rng, style string) *Gen {
	g := &Gen{r: r, feat: map[string]bool{}, style: style}
	if r.Chance(0.25) {
		for _, f := range allFeatures {
			g.feat[f] = true
		}
	} else {
		p := pick(r, []float64{0.3, 0.5, 0.7})
		for _, f := range allFeatures {
			if r.Chance(p) {
				g.feat[f] = true
			}
		}
	}
	return g
}

func (g *Gen) on(f string) bool { return g.feat[f] }

var genStrLits = []string{"a", "k", "k0", "k00", "v", "val", "x", "abc", "Hello", "1", "12", "", "zz", ",", "-", "k005", "b"}

var genStrLitsBytes = append(append([]string{}, genStrLits...), "k\xff", "k\xfe", "\xff", "u\xe4\xb8", "u\xe4\xba", "k\x00", "k\xff0", "\x80")

// strLits: the literal pool; byte-keyed stores get byte literals as well.
func (g *Gen) strLits() []string {
	if g.style == StoreBytes {
		return genStrLitsBytes
	}
	return genStrLits
}

func lit(s string) *GExpr { return &GExpr{Kind: "str", T: TS, S: s} }
func ilit(n int) *GExpr {
	return &GExpr{Kind: "int", T: TN, S: strconv.Itoa(n), NK: "i"}
}
func flit(s string) *GExpr { return &GExpr{Kind: "float", T: TN, S: s, NK: "f"} }
func call(t GType, name string, args ...*GExpr) *GExpr {
	return &GExpr{Kind: "call", T: t, S: name, Args: args}
}
func bin(t GType, op string, a, b *GExpr) *GExpr {
	return &GExpr{Kind: "bin", T: t, Op: op, Args: []*GExpr{a, b}}
}

func (g *Gen) aliasOf(t GType) *GExpr {
	var c []galias
	for _, a := range g.aliases {
		if a.t == t {
			c = append(c, a)
		}
	}
	if len(c) == 0 {
		return nil
	}
	a := pick(g.r, c)
	return &GExpr{Kind: "alias", T: t, S: a.name, NK: a.nk}
}

// ctx: "arg" = function argument position, "op" = binary operand position, "" = elsewhere (aliases not allowed)
func (g *Gen) tryAlias(t GType, ctx string) *GExpr {
	if len(g.aliases) == 0 {
		return nil
	}
	switch ctx {
	case "arg":
		if !g.on("alias-arg") {
			return nil
		}
	case "op":
		if !g.on("alias-where") {
			return nil
		}
	default:
		return nil
	}
	if g.r.Chance(0.45) {
		return g.aliasOf(t)
	}
	return nil
}

func (g *Gen) field() *GExpr {
	if g.noKey && g.noValue {
		return lit(pick(g.r, g.strLits()))
	}
	if g.noValue || (!g.noKey && g.r.Chance(0.4)) {
		return &GExpr{Kind: "key", T: TS}
	}
	return &GExpr{Kind: "value", T: TS}
}

func (g *Gen) S(d int, ctx string) *GExpr {
	r := g.r
	if a := g.tryAlias(TS, ctx); a != nil {
		return a
	}
	if d <= 0 || r.Chance(0.35) {
		if r.Chance(0.6) {
			return g.field()
		}
		return lit(pick(r, g.strLits()))
	}
	for tries := 0; tries < 4; tries++ {
		switch r.Intn(9) {
		case 0:
			return bin(TS, "+", g.S(d-1, "op"), g.S(d-1, "op"))
		case 1:
			if g.on("strfuncs") {
				return call(TS, pick(r, []string{"upper", "lower"}), g.S(d-1, "arg"))
			}
		case 2:
			if g.on("convfuncs") {
				switch r.Intn(5) {
				case 0, 1:
					return call(TS, "str", g.N(d-1, "arg"))
				case 2:
					// a function applied to a Boolean value (or a Boolean alias)
					if a := g.tryAlias(TB, "arg"); a != nil {
						return call(TS, "str", a)
					}
					return call(TS, "str", g.boolAtom(d-1))
				}
				return call(TS, "str", g.S(d-1, "arg"))
			}
		case 3:
			if g.on("substr") {
				return call(TS, "substr", g.S(d-1, "arg"), ilit(r.Intn(2)), ilit(r.Range(1, 4)))
			}
		case 4:
			if g.on("join") {
				n := r.Range(1, 3)
				args := []*GExpr{lit(pick(r, []string{"-", ",", "", "::"}))}
				for i := 0; i < n; i++ {
					if r.Bool() {
						args = append(args, g.S(d-1, "arg"))
					} else {
						args = append(args, g.N(d-1, "arg"))
					}
				}
				return call(TS, "join", args...)
			}
		case 5:
			if g.on("json") && g.on("index") {
				e := &GExpr{Kind: "index", T: TS, S: quote(pick(r, []string{"a", "b", "n", "zz"})), Args: []*GExpr{g.J(d - 1)}}
				if r.Chance(0.2) {
					e = &GExpr{Kind: "index", T: TS, S: quote("m"), Args: []*GExpr{{Kind: "index", T: TS, S: quote("n"), Args: []*GExpr{g.J(d - 1)}}}}
				}
				return e
			}
		case 6:
			if g.on("listfuncs") && g.on("index") {
				return &GExpr{Kind: "index", T: TS, S: strconv.Itoa(r.Intn(3)), Args: []*GExpr{g.strList(d - 1)}}
			}
		default:
			return g.field()
		}
	}
	return g.field()
}

func (g *Gen) numLit() *GExpr {
	r := g.r
	if g.on("arith-float") && r.Chance(0.3) {
		return flit(pick(r, []string{"0.5", "1.5", "2.25", "3.0", "10.125"}))
	}
	if r.Chance(0.01) {
		return &GExpr{Kind: "int", T: TN, S: pick(r, []string{"255", "256", "65536", "2147483648", "4294967297", "9223372036854775807"}), NK: "i"}
	}
	return ilit(pick(r, []int{0, 1, 2, 3, 5, 7, 10, 12, 100}))
}

func (g *Gen) N(d int, ctx string) *GExpr {
	r := g.r
	if a := g.tryAlias(TN, ctx); a != nil {
		return a
	}
	if d <= 0 || r.Chance(0.3) {
		if r.Chance(0.5) && g.on("convfuncs") && !(g.noKey && g.noValue) {
			e := call(TN, "int", g.field())
			e.NK = "i"
			return e
		}
		return g.numLit()
	}
	for tries := 0; tries < 4; tries++ {
		switch r.Intn(8) {
		case 0, 1:
			if g.on("convfuncs") {
				fn := pick(r, []string{"int", "int", "float", "strlen"})
				if fn == "float" && !g.on("arith-float") {
					fn = "int"
				}
				var a *GExpr
				if r.Chance(0.8) {
					a = g.S(d-1, "arg")
				} else {
					a = g.N(d-1, "arg")
				}
				e := call(TN, fn, a)
				if fn == "float" {
					e.NK = "f"
				} else {
					e.NK = "i"
				}
				return e
			}
		case 2, 3:
			if g.on("arith-int") {
				op := pick(r, []string{"+", "-", "*"})
				a, b := g.N(d-1, "op"), g.N(d-1, "op")
				e := bin(TN, op, a, b)
				if a.NK == "i" && b.NK == "i" {
					e.NK = "i"
				} else if a.NK == "f" && b.NK == "f" {
					e.NK = "f"
				}
				return e
			}
		case 4:
			if g.on("arith-int") {
				a := g.N(d-1, "op")
				b := g.N(d-1, "op")
				if (b.Kind == "int" || b.Kind == "float") && (b.S == "0" || b.S == "0.0") {
					b = ilit(2)
				}
				if g.safeDiv && b.Kind != "int" && b.Kind != "float" {
					b = ilit(pick(r, []int{1, 2, 3, 5}))
				}
				e := bin(TN, "/", a, b)
				if a.NK == "i" && b.NK == "i" {
					e.NK = "i"
				}
				return e
			}
		case 5:
			if g.on("listfuncs") {
				e := call(TN, "len", g.numList(d-1, r.Range(1, 3)))
				e.NK = "i"
				return e
			}
		case 6:
			if g.on("distance") {
				n := r.Range(1, 3)
				e := call(TN, pick(r, []string{"l2_distance", "cosine_distance"}), g.numList(d-1, n), g.numList(d-1, n))
				e.NK = "f"
				return e
			}
		default:
			return g.numLit()
		}
	}
	return g.numLit()
}

func (g *Gen) numList(d, n int) *GExpr {
	fn := pick(g.r, []string{"list", "int_list", "float_list", "ilist", "flist"})
	args := make([]*GExpr, n)
	for i := range args {
		if fn == "list" {
			args[i] = ilit(g.r.Intn(9))
			if i == 0 && g.r.Chance(0.4) && !(g.noKey && g.noValue) {
				e := call(TN, "int", g.field())
				e.NK = "i"
				args[i] = e
			}
		} else {
			args[i] = g.N(d-1, "arg")
		}
	}
	return call(TL, fn, args...)
}

func (g *Gen) L(d int, ctx string) *GExpr {
	r := g.r
	if a := g.tryAlias(TL, ctx); a != nil {
		return a
	}
	if r.Chance(0.6) {
		return call(TL, "split", g.S(d-1, "arg"), lit(pick(r, []string{",", "0", "-", "a"})))
	}
	return g.numList(d, r.Range(1, 3))
}

// strList: a list whose elements are text (split). An alias of list type is
// only used when it was defined by split.
func (g *Gen) strList(d int) *GExpr {
	return call(TL, "split", g.S(d, "arg"), lit(pick(g.r, []string{",", "0", "-", "a"})))
}

func (g *Gen) J(d int) *GExpr {
	return call(TJ, "json", g.S(0, ""))
}

func (g *Gen) boolAtom(d int) *GExpr {
	r := g.r
	for tries := 0; tries < 6; tries++ {
		switch r.Intn(12) {
		case 0, 1:
			if g.on("cmp") {
				op := pick(r, []string{"=", "!=", ">", ">=", "<", "<="})
				a, b := g.S(d-1, "op"), g.S(d-1, "op")
				if (a.Kind == "key" || a.Kind == "value") && a.Kind == b.Kind {
					b = lit(pick(r, g.strLits()))
				}
				return bin(TB, op, a, b)
			}
		case 2, 3:
			if g.on("cmp") {
				op := pick(r, []string{"=", "!=", ">", ">=", "<", "<="})
				a, b := g.N(d-1, "op"), g.N(d-1, "op")
				if (op == "=" || op == "!=") && (a.NK != "i" || b.NK != "i") {
					// float equality is refused at run time by the row evaluator (outside the claimed properties)
					op = pick(r, []string{">", ">=", "<", "<="})
				}
				return bin(TB, op, a, b)
			}
		case 4:
			if g.on("prefix-regexp") {
				if r.Bool() {
					return bin(TB, "^=", g.S(d-1, "op"), lit(pick(r, []string{"k", "k0", "v", "", "a", "K", "1"})))
				}
				if !g.safeDiv && r.Chance(0.25) { // (not where evaluation must stay total: a computed pattern may be no regular expression)
					// a pattern computed from the row (a column, a function of one, an alias): compiled per row
					return bin(TB, "~=", g.S(d-1, "op"), g.S(d-1, "arg"))
				}
				return bin(TB, "~=", g.S(d-1, "op"), lit(pick(r, []string{"^k", "0$", "[0-9]+", "a", "^v.*", "l"})))
			}
		case 5:
			if g.on("in-literal") {
				n := r.Range(1, 4)
				if r.Chance(0.005) {
					n = pick(r, []int{51, 255, 256, 300})
				}
				if r.Bool() {
					args := []*GExpr{g.S(d-1, "op")}
					for i := 0; i < n; i++ {
						if a := g.aliasOf(TS); a != nil && g.on("alias-arg") && r.Chance(0.3) {
							// an alias inside a function call that is an IN-list item
							args = append(args, call(TS, pick(r, []string{"lower", "upper", "str"}), a))
						} else {
							args = append(args, lit(pick(r, g.strLits())))
						}
					}
					return &GExpr{Kind: "in", T: TB, Op: "list", Args: args}
				}
				args := []*GExpr{g.N(d-1, "op")}
				for i := 0; i < n; i++ {
					args = append(args, ilit(r.Intn(13)))
				}
				return &GExpr{Kind: "in", T: TB, Op: "list", Args: args}
			}
		case 6:
			if g.on("in-list") && g.on("listfuncs") {
				if r.Bool() {
					return &GExpr{Kind: "in", T: TB, Op: "expr", Args: []*GExpr{g.S(d-1, "op"), g.strList(d - 1)}}
				}
				return &GExpr{Kind: "in", T: TB, Op: "expr", Args: []*GExpr{g.N(d-1, "op"), g.numList(d-1, r.Range(1, 3))}}
			}
		case 7:
			if g.on("between") {
				if !g.safeDiv && r.Chance(0.25) {
					// row-dependent bounds: lower > upper on some rows fails at run time there, in both modes
					if r.Bool() {
						return &GExpr{Kind: "between", T: TB, Args: []*GExpr{g.S(d-1, "op"), g.S(d-1, "op"), g.S(d-1, "op")}}
					}
					return &GExpr{Kind: "between", T: TB, Args: []*GExpr{g.N(d-1, "op"), g.N(d-1, "op"), g.N(d-1, "op")}}
				}
				if r.Bool() {
					lo, hi := pick(r, g.strLits()), pick(r, g.strLits())
					if lo > hi {
						lo, hi = hi, lo
					}
					if lo == hi {
						hi += "z"
					}
					return &GExpr{Kind: "between", T: TB, Args: []*GExpr{g.S(d-1, "op"), lit(lo), lit(hi)}}
				}
				lo := r.Intn(8)
				return &GExpr{Kind: "between", T: TB, Args: []*GExpr{g.N(d-1, "op"), ilit(lo), ilit(lo + r.Range(1, 9))}}
			}
		case 8:
			if g.on("convfuncs") {
				fn := pick(r, []string{"is_int", "is_float"})
				if r.Chance(0.8) {
					return call(TB, fn, g.S(d-1, "arg"))
				}
				return call(TB, fn, g.N(d-1, "arg"))
			}
		case 9:
			// key-pinning atoms so that the MGET / PREFIX / RANGE access paths are reached
			if !g.noKey {
				k := &GExpr{Kind: "key", T: TS}
				switch {
				case g.on("mget-path") && r.Chance(0.4):
					if r.Bool() {
						return bin(TB, "=", k, lit(fmt.Sprintf("k%03d", r.Intn(12))))
					}
					args := []*GExpr{k}
					nk := r.Range(1, 6)
					if r.Chance(0.01) {
						nk = pick(r, []int{51, 255, 256, 300})
					}
					for i := 0; i < nk; i++ {
						args = append(args, lit(fmt.Sprintf("k%03d", r.Intn(14+nk))))
					}
					return &GExpr{Kind: "in", T: TB, Op: "list", Args: args}
				case g.on("prefix-path") && r.Chance(0.5):
					return bin(TB, "^=", k, lit(pick(r, []string{"k", "k0", "k00", "k01", "a", "m"})))
				case g.on("range-path"):
					if r.Bool() {
						return bin(TB, pick(r, []string{">", ">=", "<", "<="}), k, lit(fmt.Sprintf("k%03d", r.Intn(14))))
					}
					lo := r.Intn(10)
					return &GExpr{Kind: "between", T: TB, Args: []*GExpr{k, lit(fmt.Sprintf("k%03d", lo)), lit(fmt.Sprintf("k%03d", lo+r.Range(1, 8)))}}
				}
			}
		case 10:
			if a := g.tryAlias(TB, "op"); a != nil {
				// a bare Boolean alias is only legal as an operand of a logical operator
				return bin(TB, pick(r, []string{"&", "|"}), a, g.boolAtom(d-1))
			}
		}
	}
	// fallback always available
	return bin(TB, "!=", g.field0(), lit("~none~"))
}

func (g *Gen) field0() *GExpr {
	if g.noKey && g.noValue {
		return lit("x")
	}
	return g.field()
}

func (g *Gen) B(d int) *GExpr {
	r := g.r
	if d <= 0 || r.Chance(0.35) || !g.on("logic") {
		return g.boolAtom(d)
	}
	if g.on("not") && r.Chance(0.12) {
		return &GExpr{Kind: "not", T: TB, Args: []*GExpr{g.B(d - 1)}}
	}
	op := pick(r, []string{"&", "|", "and", "or"})
	return bin(TB, op, g.B(d-1), g.B(d-1))
}

func (g *Gen) aggExpr(d int) *GExpr {
	r := g.r
	var e *GExpr
	switch r.Intn(8) {
	case 0:
		e = call(TN, "count", ilit(1))
		e.NK = "i"
	case 1:
		a := g.N(d, "arg")
		e = call(TN, "sum", a)
		e.NK = a.NK
	case 2:
		e = call(TN, "avg", g.N(d, "arg"))
	case 3:
		a := g.N(d, "arg")
		e = call(TN, pick(r, []string{"min", "max"}), a)
		e.NK = a.NK
	case 4:
		e = call(TS, "group_concat", g.S(d, "arg"), lit(pick(r, []string{",", "|", ""})))
	case 5:
		e = call(TS, "json_arrayagg", g.S(d, "arg"))
	case 6:
		if r.Bool() {
			e = call(TN, "count", g.S(0, ""))
			e.NK = "i"
		} else {
			// sketch-based, but a deterministic function of the values in scan order
			e = call(TN, "quantile", call(TN, "float", g.S(0, "")), flit(pick(r, []string{"0.5", "0.9", "0.25"})))
		}
	default:
		a := g.N(d, "arg")
		e = call(TN, "sum", a)
		e.NK = a.NK
	}
	if e.T == TN && g.on("agg-arith") && r.Chance(0.3) {
		nk := e.NK
		e = bin(TN, pick(r, []string{"+", "-", "*"}), e, ilit(r.Range(1, 5)))
		if nk == "i" {
			e.NK = "i"
		}
	}
	return e
}

// orderable reports whether ordering by e is safe for the tie rule: static
// type text/number/bool with a uniform dynamic kind.
func orderable(e *GExpr) bool {
	if e.hasCall("json", "split", "list", "int_list", "float_list", "ilist", "flist", "avg") {
		return false
	}
	switch e.T {
	case TS, TB:
		return true
	case TN:
		return e.NK == "i" || e.NK == "f"
	}
	return false
}

// Select generates a select statement. wantAlias forces at least one aliased
// field that is referenced somewhere (C05).
func (g *Gen) Select(wantAlias bool) *GSelect {
	r := g.r
	q := &GSelect{}
	depth := pick(r, []int{1, 2, 2, 3})
	if r.Chance(0.01) {
		depth = r.Range(4, 6)
	}
	aggregate := g.on("group") && r.Chance(0.25)
	nf := r.Range(1, 4)
	if r.Chance(0.01) {
		nf = r.Range(5, 9)
	}
	g.aliases = nil
	names := 0
	lastStyle := 0
	twinned := false
	collidePool := []string{"c", "ca", "a", "ab", "b", "bc", "x", "xa", "k", "k0"}
	if g.style == StoreCollide {
		shuffle(r, collidePool)
	}
	newName := func() string {
		if g.style == StoreCollide && names < len(collidePool) {
			// names that are prefixes of one another, over keys that continue them
			names++
			return collidePool[names-1]
		}
		if r.Chance(0.04) && names < 3 {
			// a name that is also a function's name (legal: a call needs parentheses)
			names++
			return []string{"len", "str", "sum"}[names-1]
		}
		// style 0: f<n>; style 1: a back-quoted name, which keeps its case: `F<n>`.
		// Now and then the next alias re-uses the number in the other style, so
		// two names differ only in case.
		style := 0
		if r.Chance(0.15) {
			style = 1
		}
		if names > 0 && style != lastStyle && !twinned && r.Chance(0.5) {
			names--
			twinned = true
		} else {
			twinned = false
		}
		lastStyle = style
		names++
		if style == 1 {
			return fmt.Sprintf("`F%d`", names-1)
		}
		if r.Chance(0.02) {
			return fmt.Sprintf("f%d_a_rather_long_alias_name_%s", names-1, strings.Repeat("x", r.Intn(40)))
		}
		return fmt.Sprintf("f%d", names-1)
	}

	if !wantAlias && !aggregate && r.Chance(0.15) {
		q.Star = true
	}
	if aggregate {
		// group-by fields first, then aggregates
		ng := r.Intn(3)
		for i := 0; i < ng; i++ {
			var e *GExpr
			switch r.Intn(5) {
			case 0:
				e = &GExpr{Kind: "value", T: TS}
			case 1:
				e = call(TS, "substr", &GExpr{Kind: "key", T: TS}, ilit(0), ilit(r.Range(1, 3)))
			case 2:
				e = &GExpr{Kind: "key", T: TS}
			case 3:
				e = call(TS, "lower", &GExpr{Kind: "value", T: TS})
			default:
				if r.Bool() {
					e = call(TN, "int", &GExpr{Kind: "value", T: TS})
					e.NK = "i"
				} else {
					e = g.S(1, "")
				}
			}
			f := GField{E: e}
			if e.Kind != "key" && e.Kind != "value" || r.Bool() {
				f.Alias = newName()
			}
			q.Fields = append(q.Fields, f)
			q.Group = append(q.Group, len(q.Fields)-1)
		}
		// aggregate arguments may name the group-by aliases
		for _, gi := range q.Group {
			f := q.Fields[gi]
			if f.Alias != "" {
				g.aliases = append(g.aliases, galias{f.Alias, f.E.T, f.E.NK})
			}
		}
		na := r.Range(1, 3)
		for i := 0; i < na; i++ {
			f := GField{E: g.aggExpr(1), Agg: true}
			if r.Chance(0.6) {
				f.Alias = newName()
			}
			q.Fields = append(q.Fields, f)
		}
	} else if !q.Star {
		if r.Chance(0.6) {
			q.Fields = append(q.Fields, GField{E: &GExpr{Kind: "key", T: TS}})
		}
		for len(q.Fields) < nf {
			t := pick(r, []GType{TS, TS, TN, TN, TB, TL, TJ})
			if t == TL && !g.on("listfuncs") || t == TJ && !g.on("json") {
				t = TS
			}
			// definitions may reference earlier aliases as operands/arguments
			saved := g.aliases
			if !g.on("alias-chain") {
				g.aliases = nil
			}
			e := g.exprOfCtx(t, depth)
			if e.Kind == "alias" {
				// a bare alias as a select field of its own is not among the uses C05 lists (DESIGN.md D11)
				e = call(e.T, map[GType]string{TS: "lower", TN: "int", TL: "ilist"}[e.T], e)
				if e.S == "" {
					e = leafOf(t)
				}
			}
			g.aliases = saved
			f := GField{E: e}
			if wantAlias || r.Chance(0.5) {
				if e.Kind != "alias" {
					f.Alias = newName()
					g.aliases = append(g.aliases, galias{f.Alias, e.T, e.NK})
				}
			}
			q.Fields = append(q.Fields, f)
		}
	}
	// WHERE: aliases of non-aggregate fields may be used
	if aggregate {
		g.aliases = nil
		for _, gi := range q.Group {
			f := q.Fields[gi]
			if f.Alias != "" {
				g.aliases = append(g.aliases, galias{f.Alias, f.E.T, f.E.NK})
			}
		}
	}
	q.Where = g.B(depth)
	if g.keyListWhere > 0 {
		k := &GExpr{Kind: "key", T: TS}
		n := r.Range(2, 6)
		var ks []string
		if r.Chance(0.5) {
			ks = append(ks, pick(r, []string{"0", "a0", "k", "k9zz"})) // a first key that is in no store
		}
		for len(ks) < n {
			ks = append(ks, fmt.Sprintf("k%03d", r.Intn(16)))
		}
		if r.Bool() {
			args := []*GExpr{k}
			for _, x := range ks {
				args = append(args, lit(x))
			}
			q.Where = &GExpr{Kind: "in", T: TB, Op: "list", Args: args}
		} else {
			op := pick(r, []string{"|", "or"})
			q.Where = bin(TB, "=", k, lit(ks[0]))
			for _, x := range ks[1:] {
				q.Where = bin(TB, op, q.Where, bin(TB, "=", k, lit(x)))
			}
		}
	}
	if wantAlias && len(g.aliases) > 0 && !q.Where.usesAlias() && g.keyListWhere != 1 {
		// force a use: conjoin an atom over an alias
		a := pick(r, g.aliases)
		ref := &GExpr{Kind: "alias", T: a.t, S: a.name, NK: a.nk}
		var atom *GExpr
		switch a.t {
		case TS:
			atom = bin(TB, pick(r, []string{"!=", ">=", "^="}), ref, lit(pick(r, g.strLits())))
		case TN:
			ops := []string{">", "<="}
			if a.nk == "i" {
				ops = append(ops, "!=")
			}
			atom = bin(TB, pick(r, ops), ref, ilit(r.Intn(6)))
		case TB:
			atom = bin(TB, "|", ref, bin(TB, "=", &GExpr{Kind: "key", T: TS}, lit("k001")))
		case TL:
			atom = bin(TB, ">=", call(TN, "strlen", call(TS, "join", lit(","), ref)), ilit(0))
		default:
			atom = bin(TB, "!=", &GExpr{Kind: "key", T: TS}, lit("~"))
		}
		q.Where = bin(TB, pick(r, []string{"&", "and"}), q.Where, atom)
	}
	if q.Star {
		q.WhereOnly = r.Chance(0.4)
		if g.on("order") && r.Chance(0.3) {
			q.Order = append(q.Order, GOrder{Field: r.Intn(2), Desc: r.Bool(), Dir: r.Bool()})
			if r.Chance(0.3) {
				q.Order = append(q.Order, GOrder{Field: 1 - q.Order[0].Field, Desc: r.Bool()})
			}
		}
	}
	// ORDER BY over orderable fields
	if g.on("order") && !q.Star && r.Chance(0.35) {
		var cands []int
		for i, f := range q.Fields {
			if orderable(f.E) {
				cands = append(cands, i)
			}
		}
		if len(cands) > 0 {
			shuffle(r, cands)
			n := r.Range(1, 2)
			if r.Chance(0.03) {
				n = r.Range(3, 5)
			}
			if n > len(cands) {
				n = len(cands)
			}
			for _, c := range cands[:n] {
				q.Order = append(q.Order, GOrder{Field: c, Desc: r.Bool(), Dir: r.Bool()})
			}
		}
	}
	if g.on("limit") && r.Chance(0.3) {
		q.HasLimit = true
		if r.Bool() {
			q.Off = r.Intn(6)
		}
		q.Cnt = r.Intn(8)
	}
	return q
}

func (g *Gen) exprOfCtx(t GType, d int) *GExpr {
	switch t {
	case TS:
		return g.S(d, "op")
	case TN:
		return g.N(d, "op")
	case TB:
		return g.boolAtom(d)
	case TL:
		return g.L(d, "op")
	}
	return g.J(d)
}

// DeleteStmt generates `delete where B [limit]`.
func (g *Gen) DeleteStmt() *GSelect {
	g.aliases = nil
	q := &GSelect{Delete: true, Where: g.B(pick(g.r, []int{1, 2, 2}))}
	if g.on("limit") && g.r.Chance(0.4) {
		q.HasLimit = true
		if g.r.Bool() {
			q.Off = g.r.Intn(5)
		}
		q.Cnt = g.r.Intn(7)
	}
	return q
}

// PutStmt generates `put (S|N, S|N), …` — value expressions may use key.
func (g *Gen) PutText() string {
	r := g.r
	g.aliases = nil
	n := r.Range(1, 4)
	parts := make([]string, n)
	for i := range parts {
		g.noKey, g.noValue = true, true
		var k *GExpr
		if r.Chance(0.7) {
			k = lit(fmt.Sprintf("k%03d", r.Intn(12)))
		} else if r.Bool() {
			k = g.S(1, "")
		} else {
			k = g.N(1, "")
		}
		g.noKey = false
		var v *GExpr
		if r.Bool() {
			v = g.S(2, "")
		} else {
			v = g.N(2, "")
		}
		g.noKey, g.noValue = false, false
		parts[i] = "(" + k.Render(nil) + ", " + v.Render(nil) + ")"
	}
	return "put " + strings.Join(parts, ", ")
}

func (g *Gen) RemoveText() string {
	r := g.r
	g.aliases = nil
	g.noKey, g.noValue = true, true
	defer func() { g.noKey, g.noValue = false, false }()
	n := r.Range(1, 4)
	parts := make([]string, n)
	for i := range parts {
		if r.Chance(0.7) {
			parts[i] = quote(fmt.Sprintf("k%03d", r.Intn(12)))
		} else if r.Bool() {
			parts[i] = g.S(1, "").Render(nil)
		} else {
			parts[i] = g.N(1, "").Render(nil)
		}
	}
	return "remove " + strings.Join(parts, ", ")
}
