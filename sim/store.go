package main

import (
	"bytes"
	"strconv"

	"context"
	"github.com/c4pt0r/kvql"
	"io"
	"strings"
)

// ---------------------------------------------------------------------------
// Core: the simulated storage engine. An ordered multi-version map kept as a
// copy-on-write sorted slice: every write publishes a new immutable slice, so
// a cursor snapshot is just the slice header it captured.
//
// Every method that touches Core state is //go:norace and uses no map, no
// closure, no fmt and no append: when several simulated clients share one
// Core under the token scheduler (C19), the engine itself must not be a
// source of happens-before edges or of race reports — only library state is
// under test. See DESIGN.md §3.4.
// ---------------------------------------------------------------------------

type pair struct {
	k, v []byte
	sum  uint64
}

type Core struct {
	cur     pvec
	version int
	alias   bool // variant (b): hand out engine-owned slices with spare capacity
}

// pvec is an immutable sorted sequence of pairs kept in chunks: a write copies
// the chunk it touches and the (short) list of chunks, never the whole store,
// so that many small writes against a store of 10^5 pairs stay cheap while
// every version remains a valid snapshot for the cursors that hold it.
type pvec struct {
	chunks [][]pair
	n      int
}

const maxChunk = 512

//go:norace
func pairSum(k, v []byte) uint64 {
	h := uint64(1469598103934665603)
	for i := 0; i < len(k); i++ {
		h ^= uint64(k[i])
		h *= 1099511628211
	}
	h ^= 0xff
	h *= 1099511628211
	for i := 0; i < len(v); i++ {
		h ^= uint64(v[i])
		h *= 1099511628211
	}
	return h
}

// mkPair copies k and v into one engine-owned buffer. The key slice has spare
// capacity running into the value, and the value slice runs to the end of the
// buffer, so that an append to / in-place edit of a storage-owned slice by the
// library corrupts engine state detectably (sum mismatch).
//
//go:norace
func mkPair(k, v []byte) pair {
	buf := make([]byte, len(k)+len(v)+8)
	for i := 0; i < len(k); i++ {
		buf[i] = k[i]
	}
	for i := 0; i < len(v); i++ {
		buf[len(k)+i] = v[i]
	}
	pk := buf[0:len(k)]
	pv := buf[len(k) : len(k)+len(v)]
	return pair{k: pk, v: pv, sum: pairSum(pk, pv)}
}

//go:norace
func cmpBytes(a, b []byte) int {
	n := len(a)
	if len(b) < n {
		n = len(b)
	}
	for i := 0; i < n; i++ {
		if a[i] != b[i] {
			if a[i] < b[i] {
				return -1
			}
			return 1
		}
	}
	if len(a) < len(b) {
		return -1
	}
	if len(a) > len(b) {
		return 1
	}
	return 0
}

// lowerBound returns the first index whose key is >= k.
//
//go:norace
func lowerBound(ps []pair, k []byte) int {
	lo, hi := 0, len(ps)
	for lo < hi {
		m := (lo + hi) / 2
		if cmpBytes(ps[m].k, k) < 0 {
			lo = m + 1
		} else {
			hi = m
		}
	}
	return lo
}

// sortPairs: stable merge sort by key, written out here because everything
// that touches engine state must stay invisible to the race detector.
//
//go:norace
func sortPairs(a []pair) {
	if len(a) < 2 {
		return
	}
	tmp := make([]pair, len(a))
	for w := 1; w < len(a); w *= 2 {
		for lo := 0; lo < len(a); lo += 2 * w {
			mid, hi := lo+w, lo+2*w
			if mid > len(a) {
				mid = len(a)
			}
			if hi > len(a) {
				hi = len(a)
			}
			i, j, k := lo, mid, lo
			for i < mid && j < hi {
				if cmpBytes(a[j].k, a[i].k) < 0 {
					tmp[k] = a[j]
					j++
				} else {
					tmp[k] = a[i]
					i++
				}
				k++
			}
			for i < mid {
				tmp[k] = a[i]
				i++
				k++
			}
			for j < hi {
				tmp[k] = a[j]
				j++
				k++
			}
		}
		for i := range a {
			a[i] = tmp[i]
		}
	}
}

//go:norace
func mkVec(ps []pair) pvec {
	v := pvec{n: len(ps)}
	for i := 0; i < len(ps); i += maxChunk / 2 {
		j := i + maxChunk/2
		if j > len(ps) {
			j = len(ps)
		}
		v.chunks = append(v.chunks, ps[i:j:j])
	}
	return v
}

//go:norace
func (v pvec) flat() []pair {
	out := make([]pair, 0, v.n)
	for _, c := range v.chunks {
		out = append(out, c...)
	}
	return out
}

// find returns the position (chunk, index) of the first pair whose key is >= k
// (chunk == len(chunks) when there is none) and whether that key equals k.
//
//go:norace
func (v pvec) find(k []byte) (ci, pi int, found bool) {
	lo, hi := 0, len(v.chunks)
	for lo < hi {
		m := (lo + hi) / 2
		c := v.chunks[m]
		if cmpBytes(c[len(c)-1].k, k) < 0 {
			lo = m + 1
		} else {
			hi = m
		}
	}
	if lo == len(v.chunks) {
		return lo, 0, false
	}
	c := v.chunks[lo]
	i := lowerBound(c, k)
	return lo, i, i < len(c) && cmpBytes(c[i].k, k) == 0
}

//go:norace
func (c *Core) snapshot() pvec { return c.cur }

//go:norace
func (c *Core) get(k []byte) ([]byte, bool) {
	v := c.cur
	ci, pi, found := v.find(k)
	if found {
		return v.chunks[ci][pi].v, true
	}
	return nil, false
}

//go:norace
func (c *Core) put(k, val []byte) {
	v := c.cur
	np := mkPair(k, val)
	ci, pi, found := v.find(k)
	top := make([][]pair, len(v.chunks), len(v.chunks)+1)
	for j := range v.chunks {
		top[j] = v.chunks[j]
	}
	n := v.n
	switch {
	case found:
		old := v.chunks[ci]
		nc := make([]pair, len(old))
		for j := range old {
			nc[j] = old[j]
		}
		nc[pi] = np
		top[ci] = nc
	case len(v.chunks) == 0:
		top = append(top, []pair{np})
		n++
	default:
		if ci == len(v.chunks) { // beyond the last key: append to the last chunk
			ci = len(v.chunks) - 1
			pi = len(v.chunks[ci])
		}
		old := v.chunks[ci]
		nc := make([]pair, len(old)+1)
		for j := 0; j < pi; j++ {
			nc[j] = old[j]
		}
		nc[pi] = np
		for j := pi; j < len(old); j++ {
			nc[j+1] = old[j]
		}
		n++
		if len(nc) > maxChunk {
			h := len(nc) / 2
			top = append(top, nil)
			for j := len(top) - 1; j > ci+1; j-- {
				top[j] = top[j-1]
			}
			top[ci] = nc[:h:h]
			top[ci+1] = nc[h:]
		} else {
			top[ci] = nc
		}
	}
	c.cur = pvec{chunks: top, n: n}
	c.version++
}

//go:norace
func (c *Core) del(k []byte) {
	v := c.cur
	ci, pi, found := v.find(k)
	if found {
		old := v.chunks[ci]
		var top [][]pair
		if len(old) == 1 {
			top = make([][]pair, 0, len(v.chunks)-1)
			for j := range v.chunks {
				if j != ci {
					top = append(top, v.chunks[j])
				}
			}
		} else {
			top = make([][]pair, len(v.chunks))
			for j := range v.chunks {
				top[j] = v.chunks[j]
			}
			nc := make([]pair, len(old)-1)
			for j := 0; j < pi; j++ {
				nc[j] = old[j]
			}
			for j := pi + 1; j < len(old); j++ {
				nc[j-1] = old[j]
			}
			top[ci] = nc
		}
		c.cur = pvec{chunks: top, n: v.n - 1}
	}
	c.version++
}

// putMany applies the pairs in order (a later duplicate wins) as one new
// version. Small batches touch their chunks one by one; large ones are merged
// with the whole store in a single pass: O(m log m + n), not O(m * n).
//
//go:norace
func (c *Core) putMany(ks, vs [][]byte) {
	if len(ks) <= 8 || len(ks)*40 < c.cur.n {
		for i := range ks {
			c.put(ks[i], vs[i])
		}
		return
	}
	add := make([]pair, len(ks))
	for i := range ks {
		add[i] = mkPair(ks[i], vs[i])
	}
	sortPairs(add) // stable: among equal keys the last mention stays last
	ps := c.cur.flat()
	ns := make([]pair, 0, len(ps)+len(add))
	i, j := 0, 0
	for i < len(ps) || j < len(add) {
		if j < len(add) {
			for j+1 < len(add) && cmpBytes(add[j+1].k, add[j].k) == 0 {
				j++
			}
		}
		switch {
		case j >= len(add):
			ns = append(ns, ps[i])
			i++
		case i >= len(ps):
			ns = append(ns, add[j])
			j++
		default:
			switch d := cmpBytes(ps[i].k, add[j].k); {
			case d < 0:
				ns = append(ns, ps[i])
				i++
			case d > 0:
				ns = append(ns, add[j])
				j++
			default:
				ns = append(ns, add[j])
				i++
				j++
			}
		}
	}
	c.cur = mkVec(ns)
	c.version += len(ks)
}

// delMany removes the keys as one new version.
//
//go:norace
func (c *Core) delMany(ks [][]byte) {
	if len(ks) <= 8 || len(ks)*40 < c.cur.n {
		for i := range ks {
			c.del(ks[i])
		}
		return
	}
	rm := make([]pair, len(ks))
	for i := range ks {
		rm[i] = pair{k: ks[i]}
	}
	sortPairs(rm)
	ps := c.cur.flat()
	ns := make([]pair, 0, len(ps))
	j := 0
	for i := 0; i < len(ps); i++ {
		for j < len(rm) && cmpBytes(rm[j].k, ps[i].k) < 0 {
			j++
		}
		if j < len(rm) && cmpBytes(rm[j].k, ps[i].k) == 0 {
			continue
		}
		ns = append(ns, ps[i])
	}
	c.cur = mkVec(ns)
	c.version += len(ks)
}

// KV is the JSON form of a stored pair.
type KV struct {
	K string `json:"k"`
	V string `json:"v"`
}

func NewCore(init []KV, alias bool) *Core {
	c := &Core{alias: alias}
	// build the first version in one go
	ps := make([]pair, len(init))
	for i, kv := range init {
		ps[i] = mkPair([]byte(kv.K), []byte(kv.V))
	}
	sorted := true
	for i := 1; i < len(init); i++ {
		if init[i-1].K >= init[i].K {
			sorted = false
			break
		}
	}
	if !sorted {
		sortPairs(ps) // stable; a later duplicate wins
		out := ps[:0]
		for i := range ps {
			if i+1 < len(ps) && cmpBytes(ps[i+1].k, ps[i].k) == 0 {
				continue
			}
			out = append(out, ps[i])
		}
		ps = out
	}
	c.cur = mkVec(ps)
	return c
}

// Dump returns all pairs in key order and the number of pairs whose bytes no
// longer match the checksum taken when the engine stored them (i.e. somebody
// other than the engine modified engine-owned memory).
func (c *Core) Dump() ([]KV, int) {
	ps := c.snapshot().flat()
	out := make([]KV, 0, len(ps))
	corrupt := 0
	for _, p := range ps {
		if pairSum(p.k, p.v) != p.sum {
			corrupt++
		}
		out = append(out, KV{string(p.k), string(p.v)})
	}
	return out, corrupt
}

// ---------------------------------------------------------------------------
// Handle: one client's view of a Core. Implements kvql.Storage. Holds the
// per-client event log, the fault plan and the yield hook. Per-client state is
// ordinary instrumented Go.
// ---------------------------------------------------------------------------

type Event struct {
	Seq   int      `json:"seq"`
	Stmt  int      `json:"stmt"`
	Poll  int      `json:"poll"` // -1 = during BuildPlan
	Op    string   `json:"op"`
	Cur   int      `json:"cur,omitempty"`
	Key   string   `json:"key,omitempty"`
	Keys  []string `json:"keys,omitempty"`
	Vals  []string `json:"vals,omitempty"`
	End   bool     `json:"end,omitempty"`
	Miss  bool     `json:"miss,omitempty"`
	Err   string   `json:"err,omitempty"`
	Fault string   `json:"fault,omitempty"`
}

const (
	OpGet    = "get"
	OpPut    = "put"
	OpBPut   = "bput"
	OpDel    = "del"
	OpBDel   = "bdel"
	OpCursor = "cursor"
	OpSeek   = "seek"
	OpNext   = "next"
)

func isMutating(op string) bool {
	return op == OpPut || op == OpBPut || op == OpDel || op == OpBDel
}

// Fault kinds (DESIGN.md §3.5).
const (
	FErr     = "err"         // return sentinel, no state change
	FApplied = "err-applied" // apply the write, then return sentinel
	FPartial = "err-partial" // apply a prefix of the batch, then return sentinel
)

type Fault struct {
	Call int    `json:"call"` // index into this handle's call sequence
	Kind string `json:"kind"`
	Part int    `json:"part,omitempty"` // err-partial: number of entries applied
}

type SimFault struct{ Token string }

func (e *SimFault) Error() string { return e.Token }

// faultFlavour: what error VALUE an injected fault returns, decided by the
// call index. Most are *SimFault (unique token in the text); every fifth is
// io.EOF itself and every seventh context.Canceled itself: well-known values
// a library might be tempted to interpret ("EOF = no more data") instead of
// surfacing them like any other storage error.
func faultFlavour(seq int) error {
	switch {
	case seq%5 == 4:
		return io.EOF
	case seq%7 == 6:
		return context.Canceled
	}
	return nil
}

func faultErr(ev *Event) error {
	if s := faultFlavour(ev.Seq); s != nil {
		return s
	}
	return &SimFault{ev.Err}
}

// faultSeqOf extracts the call index from a fault token ("simfault#<tag>-<seq>").
func faultSeqOf(token string) int {
	i := strings.LastIndexByte(token, '-')
	if i < 0 {
		return -1
	}
	n, err := strconv.Atoi(token[i+1:])
	if err != nil {
		return -1
	}
	return n
}

// looksFaulted: does an error text stem from an injected fault (of any flavour)?
func looksFaulted(text string) bool {
	return strings.Contains(text, "simfault#") || strings.Contains(text, io.EOF.Error()) || strings.Contains(text, context.Canceled.Error())
}

type stepCapPanic struct{}

const stepCap = 30000

type Handle struct {
	core     *Core
	client   int
	log      []Event
	faults   []Fault
	fired    []Fault
	yield    func(int)
	stmt     int
	poll     int
	nCursors int
	lazySnap bool
	runTag   string
	// yieldAfter: also yield when a storage call is about to return (a real
	// engine can be preempted after the read or write took effect, too)
	yieldAfter bool
	// front, when set, is the Storage value handed to the library instead of
	// the handle itself (see frontStorage)
	front   kvql.Storage
	stepCap int
}

func (h *Handle) after() {
	if h.yieldAfter && h.yield != nil {
		h.yield(h.client)
	}
}

func NewHandle(core *Core, client int, faults []Fault, lazy bool, runTag string) *Handle {
	// the cap on storage calls scales with the store (a statement list makes a few passes over it at most)
	return &Handle{core: core, client: client, faults: faults, lazySnap: lazy, runTag: runTag, poll: -1, stepCap: stepCap + 12*core.snapshot().n}
}

var _ kvql.Storage = (*Handle)(nil)

// begin is called first in every storage operation: yield to the scheduler,
// enforce the step cap, and look up a fault for this call index.
func (h *Handle) begin(op string) (*Event, *Fault) {
	if h.yield != nil {
		h.yield(h.client)
	}
	seq := len(h.log)
	if seq >= h.stepCap {
		panic(stepCapPanic{})
	}
	h.log = append(h.log, Event{Seq: seq, Stmt: h.stmt, Poll: h.poll, Op: op})
	ev := &h.log[seq]
	for i := range h.faults {
		if h.faults[i].Call == seq {
			f := h.faults[i]
			if !faultApplies(f.Kind, op) {
				f.Kind = FErr
			}
			ev.Fault = f.Kind
			ev.Err = "simfault#" + h.runTag + "-" + strconv.Itoa(seq)
			h.fired = append(h.fired, f)
			return ev, &f
		}
	}
	return ev, nil
}

func faultApplies(kind, op string) bool {
	switch kind {
	case FErr:
		return true
	case FApplied:
		return isMutating(op)
	case FPartial:
		return op == OpBPut || op == OpBDel
	}
	return false
}

func (h *Handle) out(b []byte) []byte {
	if h.core.alias {
		return b
	}
	c := make([]byte, len(b))
	copy(c, b)
	return c
}

func (h *Handle) Get(key []byte) ([]byte, error) {
	defer h.after()
	ev, f := h.begin(OpGet)
	ev.Key = string(key)
	if f != nil {
		return nil, faultErr(ev)
	}
	v, ok := h.core.get(key)
	if !ok {
		ev.Miss = true
		return nil, nil
	}
	r := h.out(v)
	if r == nil {
		r = []byte{}
	}
	return r, nil
}

func (h *Handle) Put(key, value []byte) error {
	defer h.after()
	ev, f := h.begin(OpPut)
	ev.Key = string(key)
	ev.Vals = []string{string(value)}
	if f != nil {
		if f.Kind == FApplied {
			h.core.put(key, value)
		}
		return faultErr(ev)
	}
	h.core.put(key, value)
	return nil
}

func (h *Handle) BatchPut(kvs []kvql.KVPair) error {
	defer h.after()
	ev, f := h.begin(OpBPut)
	ev.Keys = make([]string, len(kvs))
	ev.Vals = make([]string, len(kvs))
	for i, kv := range kvs {
		ev.Keys[i] = string(kv.Key)
		ev.Vals[i] = string(kv.Value)
	}
	n := len(kvs)
	if f != nil {
		switch f.Kind {
		case FErr:
			n = 0
		case FPartial:
			n = f.Part
			if n > len(kvs) {
				n = len(kvs)
			}
		}
	}
	bk, bv := make([][]byte, n), make([][]byte, n)
	for i := 0; i < n; i++ {
		bk[i], bv[i] = kvs[i].Key, kvs[i].Value
	}
	h.core.putMany(bk, bv)
	if f != nil {
		return faultErr(ev)
	}
	return nil
}

func (h *Handle) Delete(key []byte) error {
	defer h.after()
	ev, f := h.begin(OpDel)
	ev.Key = string(key)
	if f != nil {
		if f.Kind == FApplied {
			h.core.del(key)
		}
		return faultErr(ev)
	}
	h.core.del(key)
	return nil
}

func (h *Handle) BatchDelete(keys [][]byte) error {
	defer h.after()
	ev, f := h.begin(OpBDel)
	ev.Keys = make([]string, len(keys))
	for i, k := range keys {
		ev.Keys[i] = string(k)
	}
	n := len(keys)
	if f != nil {
		switch f.Kind {
		case FErr:
			n = 0
		case FPartial:
			n = f.Part
			if n > len(keys) {
				n = len(keys)
			}
		}
	}
	h.core.delMany(keys[:n])
	if f != nil {
		return faultErr(ev)
	}
	return nil
}

type simCursor struct {
	h      *Handle
	id     int
	snap   pvec
	have   bool
	ci, pi int
}

func (h *Handle) Cursor() (kvql.Cursor, error) {
	defer h.after()
	ev, f := h.begin(OpCursor)
	h.nCursors++
	ev.Cur = h.nCursors
	if f != nil {
		return nil, faultErr(ev)
	}
	c := &simCursor{h: h, id: h.nCursors}
	if !h.lazySnap {
		c.snap = h.core.snapshot()
		c.have = true
	}
	return c, nil
}

func (c *simCursor) ensure() {
	if !c.have {
		c.snap = c.h.core.snapshot()
		c.have = true
	}
}

func (c *simCursor) Seek(k []byte) error {
	defer c.h.after()
	ev, f := c.h.begin(OpSeek)
	ev.Cur = c.id
	ev.Key = string(k)
	if f != nil {
		return faultErr(ev)
	}
	c.ensure()
	c.ci, c.pi, _ = c.snap.find(k)
	return nil
}

func (c *simCursor) Next() ([]byte, []byte, error) {
	defer c.h.after()
	ev, f := c.h.begin(OpNext)
	ev.Cur = c.id
	if f != nil {
		return nil, nil, faultErr(ev)
	}
	c.ensure()
	if c.ci >= len(c.snap.chunks) {
		ev.End = true
		return nil, nil, nil
	}
	p := c.snap.chunks[c.ci][c.pi]
	if c.pi++; c.pi >= len(c.snap.chunks[c.ci]) {
		c.ci, c.pi = c.ci+1, 0
	}
	ev.Key = string(p.k)
	k := c.h.out(p.k)
	v := c.h.out(p.v)
	if v == nil {
		v = []byte{}
	}
	if k == nil {
		k = []byte{}
	}
	return k, v, nil
}

var _ = bytes.Compare

// frontStorage presents ONE kvql.Storage identity to all clients of a shared
// engine (the common deployment: one storage object, many goroutines) and
// forwards each call to the calling client's Handle — the caller is the token
// holder. Library state keyed by the Storage value is then shared by all
// clients.
type frontStorage struct{ hs []*Handle }

func (f *frontStorage) h() *Handle {
	i := schedCurrent()
	if i < 0 || i >= len(f.hs) {
		i = 0
	}
	return f.hs[i]
}
func (f *frontStorage) Get(key []byte) ([]byte, error)   { return f.h().Get(key) }
func (f *frontStorage) Put(key, value []byte) error      { return f.h().Put(key, value) }
func (f *frontStorage) BatchPut(kvs []kvql.KVPair) error { return f.h().BatchPut(kvs) }
func (f *frontStorage) Delete(key []byte) error          { return f.h().Delete(key) }
func (f *frontStorage) BatchDelete(keys [][]byte) error  { return f.h().BatchDelete(keys) }
func (f *frontStorage) Cursor() (kvql.Cursor, error)     { return f.h().Cursor() }
