package main

import (
	"bytes"
	"strconv"

	"github.com/c4pt0r/kvql"
)

// ---------------------------------------------------------------------------
// Core: the simulated storage engine. An ordered multi-version map kept as a
// copy-on-write sorted slice: every write publishes a new immutable slice, so
// a cursor snapshot is just the slice header it captured.
//
// Every method that touches Core state is //go:norace and uses no map, no
// closure, no fmt and no append: when several simulated clients share one
// Core under the token scheduler (C19), the engine itself must not be a
// source of happens-before edges or of race reports — only library state is
// under test. See DESIGN.md §3.4.
// ---------------------------------------------------------------------------

type pair struct {
	k, v []byte
	sum  uint64
}

type Core struct {
	cur     []pair
	version int
	alias   bool // variant (b): hand out engine-owned slices with spare capacity
}

//go:norace
func pairSum(k, v []byte) uint64 {
	h := uint64(1469598103934665603)
	for i := 0; i < len(k); i++ {
		h ^= uint64(k[i])
		h *= 1099511628211
	}
	h ^= 0xff
	h *= 1099511628211
	for i := 0; i < len(v); i++ {
		h ^= uint64(v[i])
		h *= 1099511628211
	}
	return h
}

// mkPair copies k and v into one engine-owned buffer. The key slice has spare
// capacity running into the value, and the value slice runs to the end of the
// buffer, so that an append to / in-place edit of a storage-owned slice by the
// library corrupts engine state detectably (sum mismatch).
//
//go:norace
func mkPair(k, v []byte) pair {
	buf := make([]byte, len(k)+len(v)+8)
	for i := 0; i < len(k); i++ {
		buf[i] = k[i]
	}
	for i := 0; i < len(v); i++ {
		buf[len(k)+i] = v[i]
	}
	pk := buf[0:len(k)]
	pv := buf[len(k) : len(k)+len(v)]
	return pair{k: pk, v: pv, sum: pairSum(pk, pv)}
}

//go:norace
func cmpBytes(a, b []byte) int {
	n := len(a)
	if len(b) < n {
		n = len(b)
	}
	for i := 0; i < n; i++ {
		if a[i] != b[i] {
			if a[i] < b[i] {
				return -1
			}
			return 1
		}
	}
	if len(a) < len(b) {
		return -1
	}
	if len(a) > len(b) {
		return 1
	}
	return 0
}

// lowerBound returns the first index whose key is >= k.
//
//go:norace
func lowerBound(ps []pair, k []byte) int {
	lo, hi := 0, len(ps)
	for lo < hi {
		m := (lo + hi) / 2
		if cmpBytes(ps[m].k, k) < 0 {
			lo = m + 1
		} else {
			hi = m
		}
	}
	return lo
}

//go:norace
func (c *Core) snapshot() []pair { return c.cur }

//go:norace
func (c *Core) get(k []byte) ([]byte, bool) {
	ps := c.cur
	i := lowerBound(ps, k)
	if i < len(ps) && cmpBytes(ps[i].k, k) == 0 {
		return ps[i].v, true
	}
	return nil, false
}

//go:norace
func (c *Core) put(k, v []byte) {
	ps := c.cur
	i := lowerBound(ps, k)
	np := mkPair(k, v)
	if i < len(ps) && cmpBytes(ps[i].k, k) == 0 {
		ns := make([]pair, len(ps))
		for j := 0; j < len(ps); j++ {
			ns[j] = ps[j]
		}
		ns[i] = np
		c.cur = ns
	} else {
		ns := make([]pair, len(ps)+1)
		for j := 0; j < i; j++ {
			ns[j] = ps[j]
		}
		ns[i] = np
		for j := i; j < len(ps); j++ {
			ns[j+1] = ps[j]
		}
		c.cur = ns
	}
	c.version++
}

//go:norace
func (c *Core) del(k []byte) {
	ps := c.cur
	i := lowerBound(ps, k)
	if i < len(ps) && cmpBytes(ps[i].k, k) == 0 {
		ns := make([]pair, len(ps)-1)
		for j := 0; j < i; j++ {
			ns[j] = ps[j]
		}
		for j := i + 1; j < len(ps); j++ {
			ns[j-1] = ps[j]
		}
		c.cur = ns
	}
	c.version++
}

// KV is the JSON form of a stored pair.
type KV struct {
	K string `json:"k"`
	V string `json:"v"`
}

func NewCore(init []KV, alias bool) *Core {
	c := &Core{alias: alias}
	// build the first version in one go (repeated put would copy the slice per pair)
	sorted := true
	for i := 1; i < len(init); i++ {
		if init[i-1].K >= init[i].K {
			sorted = false
			break
		}
	}
	if sorted {
		ps := make([]pair, len(init))
		for i, kv := range init {
			ps[i] = mkPair([]byte(kv.K), []byte(kv.V))
		}
		c.cur = ps
		return c
	}
	for _, kv := range init {
		c.put([]byte(kv.K), []byte(kv.V))
	}
	c.version = 0
	return c
}

// Dump returns all pairs in key order and the number of pairs whose bytes no
// longer match the checksum taken when the engine stored them (i.e. somebody
// other than the engine modified engine-owned memory).
func (c *Core) Dump() ([]KV, int) {
	ps := c.snapshot()
	out := make([]KV, 0, len(ps))
	corrupt := 0
	for _, p := range ps {
		if pairSum(p.k, p.v) != p.sum {
			corrupt++
		}
		out = append(out, KV{string(p.k), string(p.v)})
	}
	return out, corrupt
}

// ---------------------------------------------------------------------------
// Handle: one client's view of a Core. Implements kvql.Storage. Holds the
// per-client event log, the fault plan and the yield hook. Per-client state is
// ordinary instrumented Go.
// ---------------------------------------------------------------------------

type Event struct {
	Seq   int      `json:"seq"`
	Stmt  int      `json:"stmt"`
	Poll  int      `json:"poll"` // -1 = during BuildPlan
	Op    string   `json:"op"`
	Cur   int      `json:"cur,omitempty"`
	Key   string   `json:"key,omitempty"`
	Keys  []string `json:"keys,omitempty"`
	Vals  []string `json:"vals,omitempty"`
	End   bool     `json:"end,omitempty"`
	Miss  bool     `json:"miss,omitempty"`
	Err   string   `json:"err,omitempty"`
	Fault string   `json:"fault,omitempty"`
}

const (
	OpGet    = "get"
	OpPut    = "put"
	OpBPut   = "bput"
	OpDel    = "del"
	OpBDel   = "bdel"
	OpCursor = "cursor"
	OpSeek   = "seek"
	OpNext   = "next"
)

func isMutating(op string) bool {
	return op == OpPut || op == OpBPut || op == OpDel || op == OpBDel
}

// Fault kinds (DESIGN.md §3.5).
const (
	FErr     = "err"         // return sentinel, no state change
	FApplied = "err-applied" // apply the write, then return sentinel
	FPartial = "err-partial" // apply a prefix of the batch, then return sentinel
)

type Fault struct {
	Call int    `json:"call"` // index into this handle's call sequence
	Kind string `json:"kind"`
	Part int    `json:"part,omitempty"` // err-partial: number of entries applied
}

type SimFault struct{ Token string }

func (e *SimFault) Error() string { return e.Token }

type stepCapPanic struct{}

const stepCap = 30000

type Handle struct {
	core     *Core
	client   int
	log      []Event
	faults   []Fault
	fired    []Fault
	yield    func(int)
	stmt     int
	poll     int
	nCursors int
	lazySnap bool
	runTag   string
	// yieldAfter: also yield when a storage call is about to return (a real
	// engine can be preempted after the read or write took effect, too)
	yieldAfter bool
	// front, when set, is the Storage value handed to the library instead of
	// the handle itself (see frontStorage)
	front   kvql.Storage
	stepCap int
}

func (h *Handle) after() {
	if h.yieldAfter && h.yield != nil {
		h.yield(h.client)
	}
}

func NewHandle(core *Core, client int, faults []Fault, lazy bool, runTag string) *Handle {
	// the cap on storage calls scales with the store (a statement list makes a few passes over it at most)
	return &Handle{core: core, client: client, faults: faults, lazySnap: lazy, runTag: runTag, poll: -1, stepCap: stepCap + 12*len(core.snapshot())}
}

var _ kvql.Storage = (*Handle)(nil)

// begin is called first in every storage operation: yield to the scheduler,
// enforce the step cap, and look up a fault for this call index.
func (h *Handle) begin(op string) (*Event, *Fault) {
	if h.yield != nil {
		h.yield(h.client)
	}
	seq := len(h.log)
	if seq >= h.stepCap {
		panic(stepCapPanic{})
	}
	h.log = append(h.log, Event{Seq: seq, Stmt: h.stmt, Poll: h.poll, Op: op})
	ev := &h.log[seq]
	for i := range h.faults {
		if h.faults[i].Call == seq {
			f := h.faults[i]
			if !faultApplies(f.Kind, op) {
				f.Kind = FErr
			}
			ev.Fault = f.Kind
			ev.Err = "simfault#" + h.runTag + "-" + strconv.Itoa(seq)
			h.fired = append(h.fired, f)
			return ev, &f
		}
	}
	return ev, nil
}

func faultApplies(kind, op string) bool {
	switch kind {
	case FErr:
		return true
	case FApplied:
		return isMutating(op)
	case FPartial:
		return op == OpBPut || op == OpBDel
	}
	return false
}

func (h *Handle) out(b []byte) []byte {
	if h.core.alias {
		return b
	}
	c := make([]byte, len(b))
	copy(c, b)
	return c
}

func (h *Handle) Get(key []byte) ([]byte, error) {
	defer h.after()
	ev, f := h.begin(OpGet)
	ev.Key = string(key)
	if f != nil {
		return nil, &SimFault{ev.Err}
	}
	v, ok := h.core.get(key)
	if !ok {
		ev.Miss = true
		return nil, nil
	}
	r := h.out(v)
	if r == nil {
		r = []byte{}
	}
	return r, nil
}

func (h *Handle) Put(key, value []byte) error {
	defer h.after()
	ev, f := h.begin(OpPut)
	ev.Key = string(key)
	ev.Vals = []string{string(value)}
	if f != nil {
		if f.Kind == FApplied {
			h.core.put(key, value)
		}
		return &SimFault{ev.Err}
	}
	h.core.put(key, value)
	return nil
}

func (h *Handle) BatchPut(kvs []kvql.KVPair) error {
	defer h.after()
	ev, f := h.begin(OpBPut)
	ev.Keys = make([]string, len(kvs))
	ev.Vals = make([]string, len(kvs))
	for i, kv := range kvs {
		ev.Keys[i] = string(kv.Key)
		ev.Vals[i] = string(kv.Value)
	}
	n := len(kvs)
	if f != nil {
		switch f.Kind {
		case FErr:
			n = 0
		case FPartial:
			n = f.Part
			if n > len(kvs) {
				n = len(kvs)
			}
		}
	}
	for i := 0; i < n; i++ {
		h.core.put(kvs[i].Key, kvs[i].Value)
	}
	if f != nil {
		return &SimFault{ev.Err}
	}
	return nil
}

func (h *Handle) Delete(key []byte) error {
	defer h.after()
	ev, f := h.begin(OpDel)
	ev.Key = string(key)
	if f != nil {
		if f.Kind == FApplied {
			h.core.del(key)
		}
		return &SimFault{ev.Err}
	}
	h.core.del(key)
	return nil
}

func (h *Handle) BatchDelete(keys [][]byte) error {
	defer h.after()
	ev, f := h.begin(OpBDel)
	ev.Keys = make([]string, len(keys))
	for i, k := range keys {
		ev.Keys[i] = string(k)
	}
	n := len(keys)
	if f != nil {
		switch f.Kind {
		case FErr:
			n = 0
		case FPartial:
			n = f.Part
			if n > len(keys) {
				n = len(keys)
			}
		}
	}
	for i := 0; i < n; i++ {
		h.core.del(keys[i])
	}
	if f != nil {
		return &SimFault{ev.Err}
	}
	return nil
}

type simCursor struct {
	h    *Handle
	id   int
	snap []pair
	have bool
	pos  int
}

func (h *Handle) Cursor() (kvql.Cursor, error) {
	defer h.after()
	ev, f := h.begin(OpCursor)
	h.nCursors++
	ev.Cur = h.nCursors
	if f != nil {
		return nil, &SimFault{ev.Err}
	}
	c := &simCursor{h: h, id: h.nCursors}
	if !h.lazySnap {
		c.snap = h.core.snapshot()
		c.have = true
	}
	return c, nil
}

func (c *simCursor) ensure() {
	if !c.have {
		c.snap = c.h.core.snapshot()
		c.have = true
	}
}

func (c *simCursor) Seek(k []byte) error {
	defer c.h.after()
	ev, f := c.h.begin(OpSeek)
	ev.Cur = c.id
	ev.Key = string(k)
	if f != nil {
		return &SimFault{ev.Err}
	}
	c.ensure()
	c.pos = lowerBound(c.snap, k)
	return nil
}

func (c *simCursor) Next() ([]byte, []byte, error) {
	defer c.h.after()
	ev, f := c.h.begin(OpNext)
	ev.Cur = c.id
	if f != nil {
		return nil, nil, &SimFault{ev.Err}
	}
	c.ensure()
	if c.pos >= len(c.snap) {
		ev.End = true
		return nil, nil, nil
	}
	p := c.snap[c.pos]
	c.pos++
	ev.Key = string(p.k)
	k := c.h.out(p.k)
	v := c.h.out(p.v)
	if v == nil {
		v = []byte{}
	}
	if k == nil {
		k = []byte{}
	}
	return k, v, nil
}

var _ = bytes.Compare

// frontStorage presents ONE kvql.Storage identity to all clients of a shared
// engine (the common deployment: one storage object, many goroutines) and
// forwards each call to the calling client's Handle — the caller is the token
// holder. Library state keyed by the Storage value is then shared by all
// clients.
type frontStorage struct{ hs []*Handle }

func (f *frontStorage) h() *Handle {
	i := schedCurrent()
	if i < 0 || i >= len(f.hs) {
		i = 0
	}
	return f.hs[i]
}
func (f *frontStorage) Get(key []byte) ([]byte, error)   { return f.h().Get(key) }
func (f *frontStorage) Put(key, value []byte) error      { return f.h().Put(key, value) }
func (f *frontStorage) BatchPut(kvs []kvql.KVPair) error { return f.h().BatchPut(kvs) }
func (f *frontStorage) Delete(key []byte) error          { return f.h().Delete(key) }
func (f *frontStorage) BatchDelete(keys [][]byte) error  { return f.h().BatchDelete(keys) }
func (f *frontStorage) Cursor() (kvql.Cursor, error)     { return f.h().Cursor() }
