package main

import (
	"fmt"
	"sort"
	"strings"
	"time"

	"github.com/anishathalye/porcupine"
)

// Contended topology for C19: clients read and write the SAME small set of
// hot keys through the library, on a storage whose every call is atomic. The
// solo-run oracle does not apply (a statement that overlaps a write may see
// either state), so the recorded history of point writes and reads — stamped
// with the scheduler's global event sequence at invoke and return — is checked
// for linearizability against a single-register model per key (porcupine).
// A statement that starts after a write has returned must observe it.

const TopoContended = "contended"

var hotKeys = []string{"h0", "h1", "h2", "h3"}

type linOp struct {
	Key     string
	Write   bool
	Value   string // written value, or value read
	Present bool   // read: key present; write: false means remove
}

type linEvent struct {
	Client      int
	Invoke, Ret int64
	Op          linOp
	Text        string
}

// c19ContendedStmt returns one statement over the hot keys for client c, with a
// value unique to (client, statement) for writes.
func c19ContendedStmt(r *Rng, c, idx int) Stmt {
	k := pick(r, hotKeys)
	uniq := fmt.Sprintf("c%ds%d", c, idx)
	var text string
	switch r.Intn(12) {
	case 0, 1, 2:
		text = "put (" + quote(k) + ", " + quote(uniq) + ")"
	case 3:
		text = "remove " + quote(k)
	case 4:
		text = "delete where key = " + quote(k)
	case 5, 6, 7:
		text = "select * where key = " + quote(k)
	case 8:
		text = "select key, value where key in " + inList([]string{k, pick(r, hotKeys)})
	case 9:
		text = "select * where key ^= 'h'"
	case 10:
		text = "select key, value where " + quote(k) + " = key & value != 'nothing'"
	default:
		text = "select key, upper(value) as u where key ^= " + quote(clientPrefix(c)) + " & u != 'ZZ'"
	}
	return Stmt{Text: text, Mode: genMode(r)}
}

// linHistory extracts the per-key operations from the executed statements.
func linHistory(sc *Scenario, res [][]StmtRes, stamps [][][2]int64) (evs []linEvent, usable bool) {
	usable = true
	for c := range res {
		for i := range res[c] {
			r := &res[c][i]
			text := sc.Clients[c].Stmts[i].Text
			iv := stamps[c][i]
			if r.Failed() {
				// a failed statement on a fault-free storage: not expected here; give up on the history
				return nil, false
			}
			kind := stmtKind(text)
			switch kind {
			case "put":
				// put ('hK', 'v')
				k, v, ok := parsePutLit(text)
				if !ok {
					return nil, false
				}
				evs = append(evs, linEvent{c, iv[0], iv[1], linOp{Key: k, Write: true, Value: v, Present: true}, text})
			case "remove", "delete":
				k, ok := lastQuoted(text)
				if !ok {
					return nil, false
				}
				evs = append(evs, linEvent{c, iv[0], iv[1], linOp{Key: k, Write: true}, text})
			case "select":
				keys := hotKeysRead(text)
				got := map[string]string{}
				for _, row := range r.Rows {
					if len(row) >= 2 {
						kk, ok1 := unquoteCanon(row[0])
						vv, ok2 := unquoteCanon(row[1])
						if ok1 && ok2 {
							got[kk] = vv
						}
					}
				}
				for _, k := range keys {
					v, present := got[k]
					evs = append(evs, linEvent{c, iv[0], iv[1], linOp{Key: k, Value: v, Present: present}, text})
				}
			}
		}
	}
	return evs, usable
}

func parsePutLit(t string) (k, v string, ok bool) {
	// put ('k', 'v')
	parts := strings.Split(t, "'")
	if len(parts) >= 5 {
		return parts[1], parts[3], true
	}
	return "", "", false
}

func lastQuoted(t string) (string, bool) {
	parts := strings.Split(t, "'")
	if len(parts) >= 3 {
		return parts[len(parts)-2], true
	}
	return "", false
}

// hotKeysRead lists the hot keys a select statement reads (by construction of c19ContendedStmt).
func hotKeysRead(t string) []string {
	if strings.Contains(t, "key ^= 'h'") {
		return append([]string{}, hotKeys...)
	}
	if strings.Contains(t, "key ^= 'c") {
		return nil
	}
	seen := map[string]bool{}
	var out []string
	parts := strings.Split(t, "'")
	for i := 1; i < len(parts); i += 2 {
		for _, h := range hotKeys {
			if parts[i] == h && !seen[h] {
				seen[h] = true
				out = append(out, h)
			}
		}
	}
	sort.Strings(out)
	return out
}

type regState struct {
	present bool
	value   string
}

var registerModel = porcupine.Model{
	Init: func() interface{} { return regState{} },
	Step: func(state, input, output interface{}) (bool, interface{}) {
		st := state.(regState)
		op := input.(linOp)
		if op.Write {
			return true, regState{present: op.Present, value: op.Value}
		}
		out := output.(linOp)
		if out.Present != st.present {
			return false, st
		}
		if out.Present && out.Value != st.value {
			return false, st
		}
		return true, st
	},
	Equal: func(a, b interface{}) bool { return a.(regState) == b.(regState) },
}

// checkLinearizable checks each hot key's history; init gives the keys present
// at the start (modelled as a write that returned before everything else).
func checkLinearizable(evs []linEvent, init map[string]string) (illegalKey string, detail string, unknown int) {
	byKey := map[string][]linEvent{}
	for _, e := range evs {
		byKey[e.Op.Key] = append(byKey[e.Op.Key], e)
	}
	keys := make([]string, 0, len(byKey))
	for k := range byKey {
		keys = append(keys, k)
	}
	sort.Strings(keys)
	for _, k := range keys {
		var ops []porcupine.Operation
		if v, ok := init[k]; ok {
			ops = append(ops, porcupine.Operation{ClientId: 0, Input: linOp{Key: k, Write: true, Value: v, Present: true}, Call: -2, Output: linOp{}, Return: -1})
		}
		for _, e := range byKey[k] {
			ops = append(ops, porcupine.Operation{ClientId: e.Client, Input: e.Op, Call: e.Invoke, Output: e.Op, Return: e.Ret})
		}
		switch porcupine.CheckOperationsTimeout(registerModel, ops, 10*time.Second) {
		case porcupine.Illegal:
			var sb strings.Builder
			es := byKey[k]
			sort.Slice(es, func(i, j int) bool { return es[i].Invoke < es[j].Invoke })
			for i, e := range es {
				if i >= 14 {
					sb.WriteString(" …")
					break
				}
				if e.Op.Write {
					fmt.Fprintf(&sb, " [%d,%d]c%d:write(%q,present=%v)", e.Invoke, e.Ret, e.Client, e.Op.Value, e.Op.Present)
				} else {
					fmt.Fprintf(&sb, " [%d,%d]c%d:read->(%q,present=%v)", e.Invoke, e.Ret, e.Client, e.Op.Value, e.Op.Present)
				}
			}
			return k, sb.String(), unknown
		case porcupine.Unknown:
			unknown++
		}
	}
	return "", "", unknown
}
