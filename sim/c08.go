package main

import (
	"fmt"
	"sort"
	"strings"
	"sync"
)

// C08 — LIMIT returns exactly the requested slice of the unlimited result.
// Grid over (offset, count, result size, batch size, family, drain mode);
// oracle = slice of the same engine's unlimited result in the same mode.

type LimitCase struct {
	Family    string `json:"family"`
	Base      string `json:"base"` // statement without the LIMIT clause (select families) or predicate (delete)
	Off       int    `json:"off"`
	Cnt       int    `json:"cnt"`
	Short     bool   `json:"short,omitempty"` // render `limit n` instead of `limit 0, n`
	OrderCols []int  `json:"order_cols,omitempty"`
	R         int    `json:"r"`             // intended unlimited result size
	Pad       int    `json:"pad,omitempty"` // render the numbers zero-padded to this width (decimal all the same)
}

func (l *LimitCase) limitText() string {
	if l.Short && l.Off == 0 {
		return fmt.Sprintf(" limit %0*d", l.Pad, l.Cnt)
	}
	return fmt.Sprintf(" limit %0*d, %0*d", l.Pad, l.Off, l.Pad, l.Cnt)
}

func init() {
	register(&Prop{
		ID:    "C08",
		Level: "exploration",
		Rule:  "case = grid point (family ∈ {plain, plain-filtered, ordered, ordered-ties, ordered-2keys, mget, aggregate (limit pushed into the aggregate node), aggregate-ordered (limit wrapped), aggregate-all (no GROUP BY), delete, delete-filtered, plain-sparse, ordered-sparse, delete-sparse (few matches among many scanned rows), alias-filtered (alias filtered on and projected)}, batch size B, unlimited result size R, offset s, count n, drain mode). Each case runs the statement without LIMIT and with `limit s, n` (or `limit n`) in the same mode on equal simulated stores and compares L with U[s:s+n] (ordered families: tie-aware). quick samples the grid by seed with forced inclusion of the coincidences (s a multiple/partial sum of child batch sizes, s = R, n = 0, s+n = R, s > R); thorough enumerates it completely for B ∈ {1,2,3,5,8} and the boundary values for B = 32. distinct_nontrivial counts distinct (family, mode, B, R, s, n) points with R > 0. One index in 1501 is a big case: result sizes 4097..70000 (1024..2100 for the key-list families), offsets and counts around 4096 and 65536, batch sizes to 70000; family delete-mget (literal key set with missing keys under a LIMIT) was added to the grid.",
		Assumptions: []string{
			"the unlimited result in the same drain mode is taken as the reference (row/batch agreement is C03's property)",
			"ORDER BY columns are text/integer with uniform dynamic type, so content-equality and the comparator's tie notion coincide",
		},
		Real: "real: all of kvql from /repo's working tree; simulated: storage engine, caller",
		NCases: func(tier string) int {
			if tier == "thorough" {
				return len(c08Grid()) * c08Replicas
			}
			return 150000
		},
		Gen:        genC08,
		Run:        runC08,
		Shrink:     shrinkC08,
		Exhaustive: func(tier string) bool { return tier == "thorough" },
		Finish: func(st *Stats, cov map[string]any, tier string) string {
			// vacuity guard: every select family must have produced unlimited results to slice
			// (a template the engine rejects, or whose evaluation fails, would be judged never)
			for _, f := range c08Families {
				if !strings.HasPrefix(f, "delete") && st.Counters["family:"+f] > 50 && st.Counters["judged_nonempty:"+f] == 0 {
					return "family " + f + " never produced a non-empty unlimited result: its cases are vacuous"
				}
			}
			if tier == "thorough" {
				cov["grid_points"] = len(c08Grid())
				cov["replicas_per_grid_point"] = c08Replicas
				cov["grid"] = "B∈{1,2,3,5,8}: R∈[0,3B+1] × s∈[0,R+2] × n∈{0,1,2,B-1,B,B+1,R,R+1}; B=32: R,s thinned to multiples of B ±1 and the ends; × 17 families × 2 drain modes (one index in 1501 is a big case instead)"
			}
			return ""
		},
	})
}

// thorough: every grid point is executed with this many differently seeded stores/configs
const c08Replicas = 16

var c08Families = []string{"plain", "plain-filtered", "ordered", "ordered-ties", "aggregate", "aggregate-ordered", "delete", "delete-filtered", "aggregate-all", "ordered-2keys", "mget", "plain-sparse", "delete-sparse", "ordered-sparse", "alias-filtered", "delete-mget", "aggregate-ordered-keyexpr"}

type gridPt struct {
	fam  int
	mode int
	b, r int
	s, n int
}

var (
	gridOnce sync.Once
	gridPts  []gridPt
)

func uniqInts(xs []int) []int {
	sort.Ints(xs)
	out := xs[:0]
	for i, x := range xs {
		if x < 0 {
			continue
		}
		if i > 0 && len(out) > 0 && out[len(out)-1] == x {
			continue
		}
		out = append(out, x)
	}
	return out
}

func c08Grid() []gridPt {
	gridOnce.Do(func() {
		for _, b := range []int{1, 2, 3, 5, 8, 32} {
			var rs []int
			if b < 32 {
				for r := 0; r <= 3*b+1; r++ {
					rs = append(rs, r)
				}
			} else {
				rs = []int{0, 1, 2, 31, 32, 33, 63, 64, 65, 96, 97}
			}
			for _, r := range rs {
				var ss []int
				if b < 32 {
					for s := 0; s <= r+2; s++ {
						ss = append(ss, s)
					}
				} else {
					ss = uniqInts([]int{0, 1, 31, 32, 33, 63, 64, 65, r - 1, r, r + 1})
				}
				ns := uniqInts([]int{0, 1, 2, b - 1, b, b + 1, r, r + 1})
				for _, s := range ss {
					for _, n := range ns {
						for f := range c08Families {
							for m := 0; m < 2; m++ {
								gridPts = append(gridPts, gridPt{fam: f, mode: m, b: b, r: r, s: s, n: n})
							}
						}
					}
				}
			}
		}
	})
	return gridPts
}

// c08Build materialises the scenario of a grid point.
func c08Build(r *Rng, p gridPt) *Scenario {
	fam := c08Families[p.fam]
	mode := ModeRow
	if p.mode == 1 {
		mode = ModeBatch
	}
	sc := &Scenario{Family: fam, Cfg: Config{Batch: p.b, Cache: r.Bool(), Alias: r.Chance(0.3), Lazy: r.Chance(0.3)}}
	lc := &LimitCase{Family: fam, Off: p.s, Cnt: p.n, R: p.r, Short: p.s == 0 && r.Bool()}
	if r.Chance(0.08) {
		lc.Pad = r.Range(2, 4)
	}
	var init []KV
	noise := func() {
		// rows inside the scanned region that the filter rejects, so child batches vary in size
		for i := 0; i < p.r+2; i++ {
			if r.Chance(0.45) {
				init = append(init, KV{fmt.Sprintf("k%03dx", i), "skip"})
			}
		}
		init = append(init, KV{"a", "1"}, KV{"z", "2"})
	}
	switch fam {
	case "plain":
		for i := 0; i < p.r; i++ {
			init = append(init, KV{fmt.Sprintf("k%03d", i), pick(r, valuePoolInt)})
		}
		lc.Base = "select * where key ^= 'k'"
	case "plain-filtered":
		for i := 0; i < p.r; i++ {
			init = append(init, KV{fmt.Sprintf("k%03d", i), pick(r, valuePoolInt)})
		}
		noise()
		lc.Base = "select key, int(value) as n where key ^= 'k' & value != 'skip'"
	case "ordered":
		for i := 0; i < p.r; i++ {
			init = append(init, KV{fmt.Sprintf("k%03d", i), fmt.Sprintf("%04d", (i*37+11)%1000+i*1000)})
		}
		noise()
		lc.Base = "select key, value where key ^= 'k' & value != 'skip' order by value " + pick(r, []string{"asc", "desc", ""})
		lc.OrderCols = []int{1}
	case "ordered-ties":
		for i := 0; i < p.r; i++ {
			init = append(init, KV{fmt.Sprintf("k%03d", i), pick(r, []string{"1", "2", "3"})})
		}
		lc.Base = "select key, int(value) as n where key ^= 'k' order by n " + pick(r, []string{"asc", "desc"})
		lc.OrderCols = []int{1}
	case "aggregate", "aggregate-ordered":
		// exactly p.r groups, each seen 1..3 times, groups first appear in key order
		idx := 0
		for rep := 0; rep < 3; rep++ {
			for g := 0; g < p.r; g++ {
				if rep == 0 || r.Chance(0.5) {
					init = append(init, KV{fmt.Sprintf("k%04d", idx), fmt.Sprintf("g%03d", g)})
					idx++
				}
			}
		}
		if fam == "aggregate" {
			lc.Base = "select value as g, count(1) as c where key ^= 'k' group by g"
		} else {
			lc.Base = "select value as g, count(1) as c where key ^= 'k' group by g order by g desc"
			lc.OrderCols = []int{0}
		}
	case "aggregate-ordered-keyexpr":
		// groups derived from the key by an expression (kvql's substr panics for most start > 0 - `val[start:min(length, len-start)]` - so the part after the underscore is taken with split) that is not monotone in the key:
		// the groups are first met in an order that is not their sorted order
		perm := make([]int, p.r)
		for i := range perm {
			perm[i] = i
		}
		shuffle(r, perm)
		idx := 0
		for rep := 0; rep < 2; rep++ {
			for g := 0; g < p.r; g++ {
				if rep == 0 || r.Chance(0.4) {
					init = append(init, KV{fmt.Sprintf("k%06d_%05d", idx, perm[g]), pick(r, valuePoolInt)})
					idx++
				}
			}
		}
		lc.Base = "select split(key, '_')[1] as g, count(1) as c where key ^= 'k' group by g order by g" + pick(r, []string{"", " asc", " desc"})
		lc.OrderCols = []int{0}
	case "aggregate-all":
		// no GROUP BY: the unlimited result is one row (none when nothing passes)
		for i := 0; i < p.r; i++ {
			init = append(init, KV{fmt.Sprintf("k%03d", i), pick(r, valuePoolInt)})
		}
		init = append(init, KV{"a", "1"})
		lc.Base = "select count(1) as c, sum(int(value)) as s where key ^= 'k'"
	case "ordered-2keys":
		for i := 0; i < p.r; i++ {
			init = append(init, KV{fmt.Sprintf("k%03d", i), pick(r, []string{"1", "2", "3"})})
		}
		lc.Base = "select key, int(value) as n where key ^= 'k' order by n " + pick(r, []string{"asc", "desc"}) + ", key " + pick(r, []string{"asc", "desc"})
		lc.OrderCols = []int{1, 0}
	case "mget", "delete-mget":
		var ks []string
		for i := 0; i < p.r; i++ {
			k := fmt.Sprintf("k%03d", i)
			init = append(init, KV{k, pick(r, valuePoolInt)})
			ks = append(ks, k)
			if r.Chance(0.3) {
				ks = append(ks, fmt.Sprintf("k%03dmissing", i))
			}
		}
		if len(ks) == 0 {
			ks = []string{"nokey"}
		}
		shuffle(r, ks)
		if fam == "delete-mget" {
			// a literal key set with a LIMIT: the window counts the rows that exist, in key order
			lc.Base = "key in " + inList(ks)
			if r.Chance(0.3) {
				lc.Base += " & value != 'skip'"
			}
		} else {
			lc.Base = "select key, value where key in " + inList(ks)
		}
	case "plain-sparse", "delete-sparse", "ordered-sparse":
		// few matching rows among many scanned ones: child batches are short and
		// whole storage chunks contain no match at all
		for i := 0; i < p.r; i++ {
			init = append(init, KV{fmt.Sprintf("k%03d", i), fmt.Sprintf("%04d", (i*37+11)%1000+i*1000)})
			nz := 2*p.b + 3
			if p.r > 120 && nz > 6 {
				nz = 6 // large results: keep the store within a few thousand pairs
			}
			for j := 0; j < r.Intn(nz); j++ {
				init = append(init, KV{fmt.Sprintf("k%03d_%02d", i, j), "skip"})
			}
		}
		for j := 0; j < r.Intn(2*p.b+2) && j < 80; j++ {
			init = append(init, KV{fmt.Sprintf("k_%02d", j), "skip"})
		}
		switch fam {
		case "plain-sparse":
			lc.Base = "select key, value where key ^= 'k' & value != 'skip'"
		case "ordered-sparse":
			lc.Base = "select key, value where key ^= 'k' & value != 'skip' order by value desc"
			lc.OrderCols = []int{1}
		default:
			lc.Base = "key ^= 'k' & value != 'skip'"
		}
	case "alias-filtered":
		// an alias both filtered on and projected: the limit must slice rows, not columns
		for i := 0; i < p.r; i++ {
			init = append(init, KV{fmt.Sprintf("k%03d", i), fmt.Sprint(i*3 + 1)})
		}
		noise()
		lc.Base = "select key, int(value) as n, upper(key) as u where key ^= 'k' & value != 'skip' & n != 99999 & u != 'ZZ'"
	case "delete":
		for i := 0; i < p.r; i++ {
			init = append(init, KV{fmt.Sprintf("k%03d", i), pick(r, valuePoolInt)})
		}
		init = append(init, KV{"a", "1"}, KV{"z", "2"})
		lc.Base = "key ^= 'k'"
	case "delete-filtered":
		for i := 0; i < p.r; i++ {
			init = append(init, KV{fmt.Sprintf("k%03d", i), pick(r, valuePoolInt)})
		}
		noise()
		lc.Base = "key ^= 'k' & value != 'skip'"
	}
	sort.Slice(init, func(i, j int) bool { return init[i].K < init[j].K })
	sc.Init = init
	sc.L = lc
	if strings.HasPrefix(fam, "delete") {
		sc.Hist = []HistStmt{{Kind: "delete", Mode: mode, Pred: lc.Base, HasLimit: true, Off: lc.Off, Cnt: lc.Cnt}}
		sc.Clients = []Client{{Stmts: histStmts(sc.Hist)}}
	} else {
		sc.Clients = []Client{{Stmts: []Stmt{{Text: lc.Base + lc.limitText(), Mode: mode}}}}
	}
	return sc
}

func genC08(seed uint64, i int, tier string) *Scenario {
	r := NewRng(seed)
	if i%1501 == 13 {
		return genC08Big(r, i)
	}
	if tier == "thorough" {
		g := c08Grid()
		return c08Build(r, g[i%len(g)])
	}
	// quick: sampled, with forced coincidences
	b := pick(r, []int{1, 2, 3, 5, 8, 32})
	if r.Chance(0.15) {
		b = r.Range(4, 40)
	}
	rr := pick(r, []int{0, 1, b - 1, b, b + 1, 2 * b, 2*b + 1, 3 * b, 3*b + 1, r.Range(0, 3*b+1)})
	if rr < 0 {
		rr = 0
	}
	if rr > 100 {
		rr = 100
	}
	s := pick(r, []int{0, 0, 1, b - 1, b, b + 1, 2 * b, rr - 1, rr, rr + 1, r.Range(0, rr+2)})
	if s < 0 {
		s = 0
	}
	n := pick(r, []int{0, 1, 2, b - 1, b, b + 1, rr, rr - s, rr - s + 1, r.Range(0, rr+1)})
	if n < 0 {
		n = 0
	}
	if r.Chance(0.003) {
		// scale: result sizes and batch sizes around 256 / 1000
		b = pick(r, []int{64, 255, 256, 257, 1000})
		rr = pick(r, []int{255, 256, 257, 300, 520, 1001, 1024, 1025, 1100})
		s = pick(r, []int{0, 1, 255, 256, 257, rr - 1, rr, b, b + 1, 3, 1023, 1024})
		n = pick(r, []int{1, 255, 256, 257, rr, rr - s, 2, 40})
		if n < 0 {
			n = 0
		}
	}
	if r.Chance(0.01) {
		// counts at the edge of the integer types ("everything from the offset on")
		n = pick(r, []int{2147483647, 2147483648, 4294967296, 9223372036854775807, 9223372036854775806})
	}
	return c08Build(r, gridPt{fam: i % len(c08Families), mode: (i / len(c08Families)) % 2, b: b, r: rr, s: s, n: n})
}

func runC08(sc *Scenario, st *Stats) []Violation {
	lc := sc.L
	if lc == nil {
		return nil
	}
	mode := ModeRow
	if len(sc.Clients) > 0 && len(sc.Clients[0].Stmts) > 0 {
		mode = sc.Clients[0].Stmts[0].Mode
	}
	if len(sc.Hist) > 0 {
		mode = sc.Hist[0].Mode
	}
	pt := fmt.Sprintf("fam=%s mode=%s B=%d R=%d s=%d n=%d", lc.Family, mode, sc.Cfg.Batch, lc.R, lc.Off, lc.Cnt)
	if lc.R > 0 {
		st.Seen(pt)
	}
	st.Inc("family:" + lc.Family)
	if strings.HasPrefix(lc.Family, "delete") {
		h := &sc.Hist[0]
		h.Pred, h.HasLimit, h.Off, h.Cnt, h.Pad = lc.Base, true, lc.Off, lc.Cnt, lc.Pad
		setKnobs(sc.Cfg)
		w := NewWorld(sc.Init, sc.Cfg, nil, "c08")
		prior, _ := w.Core.Dump()
		r := execStmt(w.H, 0, h.Stmt(), sc.Cfg)
		vs, _, _ := judgeDelete("C08", sc, w, 0, h, &r, prior, st)
		st.noteRun(w, []StmtRes{r})
		st.Sample(map[string]any{"point": pt, "statement": h.Render(), "store_pairs": len(sc.Init)}, 4)
		return vs
	}
	text := lc.Base + lc.limitText()
	wU, rsU := runStmts(sc, sc.Cfg, []Stmt{{Text: lc.Base, Mode: mode}}, nil)
	st.noteRun(wU, rsU)
	wL, rsL := runStmts(sc, sc.Cfg, []Stmt{{Text: text, Mode: mode}}, nil)
	st.noteRun(wL, rsL)
	U, L := rsU[0], rsL[0]
	st.Sample(map[string]any{"point": pt, "statement": text, "store_pairs": len(sc.Init), "unlimited_rows": len(U.Rows), "limited_rows": len(L.Rows)}, 4)
	sig := fmt.Sprintf("fam=%s mode=%s plan=%s %s", lc.Family, mode, planShape(L.Explain), c08class(lc, sc.Cfg.Batch, len(U.Rows)))
	mk := func(kind, detail string) []Violation {
		return []Violation{{Prop: "C08", Kind: kind, Detail: pt + ": " + detail + " | statement: " + text, Sig: sig}}
	}
	if U.Failed() {
		st.Inc("unlimited_failed")
		return nil
	}
	if len(U.Rows) > 0 {
		st.Inc("judged_nonempty:" + lc.Family)
	}
	if L.Failed() {
		return mk("limited-failed", fmt.Sprintf("the unlimited statement completed with %d rows but the limited one failed: %s%s%s stepcap=%v", len(U.Rows), L.BuildErr, L.Err, L.Panic, L.StepCap))
	}
	lo, hi := lc.Off, lc.Off+lc.Cnt
	if hi < lo { // offset + count beyond the integer range: everything from the offset on
		hi = len(U.Rows)
	}
	if lo > len(U.Rows) {
		lo = len(U.Rows)
	}
	if hi > len(U.Rows) {
		hi = len(U.Rows)
	}
	want := U.Rows[lo:hi]
	if len(lc.OrderCols) == 0 {
		if !rowsEqual(L.Rows, want) {
			return mk("wrong-slice", fmt.Sprintf("limited result has %d rows %s; rows [%d,%d) of the unlimited result (%d rows) are %s", len(L.Rows), briefRows(L.Rows), lo, hi, len(U.Rows), briefRows(want)))
		}
		return nil
	}
	// ordered: a slice of SOME valid sorted order
	if len(L.Rows) != len(want) {
		return mk("wrong-slice", fmt.Sprintf("limited result has %d rows, expected %d (rows [%d,%d) of %d)", len(L.Rows), len(want), lo, hi, len(U.Rows)))
	}
	keyOf := func(row []string) string {
		parts := make([]string, len(lc.OrderCols))
		for i, c := range lc.OrderCols {
			if c < len(row) {
				parts[i] = row[c]
			}
		}
		return strings.Join(parts, "\x00")
	}
	for j := range L.Rows {
		if keyOf(L.Rows[j]) != keyOf(want[j]) {
			return mk("wrong-slice", fmt.Sprintf("row %d of the limited result has ORDER BY key %q, row %d of the unlimited result has %q", j, keyOf(L.Rows[j]), lo+j, keyOf(want[j])))
		}
	}
	// within each tie run: L's rows are a sub-multiset of U's run
	runU := map[string]map[string]int{}
	for _, row := range U.Rows {
		k := keyOf(row)
		if runU[k] == nil {
			runU[k] = map[string]int{}
		}
		runU[k][rowStr(row)]++
	}
	for _, row := range L.Rows {
		k := keyOf(row)
		runU[k][rowStr(row)]--
		if runU[k][rowStr(row)] < 0 {
			return mk("wrong-slice", fmt.Sprintf("row %q appears more often in the limited result than in the unlimited one", rowStr(row)))
		}
	}
	return nil
}

func c08class(lc *LimitCase, b, nU int) string {
	oc := "s<R"
	switch {
	case lc.Off == 0:
		oc = "s=0"
	case lc.Off > nU:
		oc = "s>R"
	case lc.Off == nU:
		oc = "s=R"
	case b > 0 && lc.Off%b == 0:
		oc = "s=kB"
	}
	cc := "n<rest"
	switch {
	case lc.Cnt == 0:
		cc = "n=0"
	case lc.Off+lc.Cnt == nU:
		cc = "s+n=R"
	case lc.Off+lc.Cnt > nU || lc.Off+lc.Cnt < lc.Off:
		cc = "s+n>R"
	}
	return oc + " " + cc
}

func briefRows(rows [][]string) string {
	var parts []string
	for i, r := range rows {
		if i >= 4 {
			parts = append(parts, fmt.Sprintf("…(%d more)", len(rows)-4))
			break
		}
		if len(r) > 0 {
			parts = append(parts, r[0])
		}
	}
	return "[" + strings.Join(parts, " ") + "]"
}

func shrinkC08(sc *Scenario) []*Scenario {
	var out []*Scenario
	if sc.L == nil {
		return nil
	}
	mod := func(f func(c *Scenario)) {
		c := cloneScenario(sc)
		f(c)
		if len(c.Hist) > 0 {
			c.Hist[0].Off, c.Hist[0].Cnt = c.L.Off, c.L.Cnt
			c.Clients = []Client{{Stmts: histStmts(c.Hist)}}
		} else {
			c.Clients[0].Stmts[0].Text = c.L.Base + c.L.limitText()
		}
		out = append(out, c)
	}
	if sc.L.Off > 0 {
		mod(func(c *Scenario) { c.L.Off-- })
	}
	if sc.L.Cnt > 0 {
		mod(func(c *Scenario) { c.L.Cnt-- })
	}
	out = append(out, shrinkInit(sc)...)
	out = append(out, shrinkConfig(sc)...)
	return out
}
