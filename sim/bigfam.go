package main

import (
	"fmt"
	"strings"
)

// ---------------------------------------------------------------------------
// "big" families: a few cases per quick run (more per thorough run) whose
// sizes are one to three orders of magnitude above the everyday ones — stores
// of thousands to 140000 pairs, batch sizes up to 70000, offsets and counts
// beyond 65536, lists of thousands of items, megabytes of payload. Anything a
// library keeps in a fixed-size buffer, a narrow integer or a bounded cache is
// only exercised beyond its bound here. Rare, because each costs 0.1…3 s.
// ---------------------------------------------------------------------------

// bigStore: keys k0000000…, one value per row.
//
//	text: V0000000… (distinct, same order as the keys)
//	num:  (j*7919) mod 100003 (distinct below 100003 rows, scattered)
//	few:  g000…g299 (300 groups, scattered)
func bigStore(n int, flavour string) []KV {
	out := make([]KV, n)
	for j := range out {
		var v string
		switch flavour {
		case "num":
			v = fmt.Sprint((j * 7919) % 100003)
		case "few":
			v = fmt.Sprintf("g%03d", (j*7)%300)
		default:
			v = fmt.Sprintf("V%07d", j)
		}
		out[j] = KV{fmt.Sprintf("k%07d", j), v}
	}
	return out
}

var bigSizes = []int{3000, 5000, 20000, 70000, 140000}
var bigBatches = []int{1, 4, 32, 1025, 4097, 65536, 70000}

func genC03Big(r *Rng) *Scenario {
	n := pick(r, bigSizes)
	flavour := "text"
	var text string
	k := func(j int) string { return fmt.Sprintf("k%07d", j%n) }
	switch r.Intn(11) {
	case 0:
		text = fmt.Sprintf("select key, value where value ^= 'V%04d'", r.Intn(n/1000))
	case 1:
		flavour = "num"
		text = fmt.Sprintf("select key, int(value) as n where n > %d", 100003-r.Range(50, 3000))
	case 2:
		text = "select key, value where key > " + quote(k(n-r.Range(100, 70000))) + " order by value" + pick(r, []string{"", " desc"})
	case 3:
		flavour = "few"
		text = "select value, count(1), min(key), max(key) where key > '' group by value"
	case 4:
		// as many groups as rows
		text = "select value, count(1) where key >= " + quote(k(n-r.Range(100, 70000))) + " group by value"
	case 5:
		text = fmt.Sprintf("select key where value != 'zz' limit %d, %d", pick(r, []int{4095, 4096, 65535, 65536, 69990}), pick(r, []int{1, 10, 4097}))
	case 6:
		flavour = "num"
		text = "select substr(key, 0, 5) as p, count(1) as c, sum(int(value)) where key > '' group by p order by c desc, p"
	case 7:
		text = "select * where key between " + quote(k(100)) + " and " + quote(k(n-2)) + fmt.Sprintf(" & value ^= 'V%05d'", r.Intn(n/100))
	case 8:
		text = fmt.Sprintf("delete where value ^= 'V%04d'", r.Intn(n/1000))
	case 9:
		text = fmt.Sprintf("delete where key > '' limit %d, %d", pick(r, []int{0, 4096, 65535, 65536}), pick(r, []int{20, 4097, 65536}))
	default:
		text = fmt.Sprintf("select key, lower(value) as u, strlen(key) where u ^= 'v%05d' | u = 'v%07d'", r.Intn(n/100), r.Intn(n))
	}
	return &Scenario{Family: "big", Cfg: Config{Batch: pick(r, bigBatches), Cache: r.Bool(), Lazy: r.Bool()},
		Init: bigStore(n, flavour), Clients: []Client{{Stmts: []Stmt{{Text: text}}}}}
}

// genC08Big: grid points far outside the enumerated grid.
func genC08Big(r *Rng, i int) *Scenario {
	fam := r.Intn(len(c08Families))
	if r.Bool() {
		// half of the big cases go to the families that sort or aggregate (they buffer the whole result)
		for try := 0; try < 20 && !strings.Contains(c08Families[fam], "ordered") && !strings.Contains(c08Families[fam], "aggregate"); try++ {
			fam = r.Intn(len(c08Families))
		}
	}
	rr := pick(r, []int{4097, 20000, 65535, 65536, 65537, 70000})
	if strings.HasSuffix(c08Families[fam], "mget") {
		rr = pick(r, []int{1024, 1100, 2100}) // kvql evaluates IN per row over the whole list: quadratic
	}
	s := pick(r, []int{0, 0, 1, 7, 4095, 4096, 65535, 65536, rr - 1, rr, rr - 10})
	if s < 0 {
		s = 0
	}
	n := pick(r, []int{1, 10, 10, 100, 4097, 65536, rr, rr - s, 70000})
	if n < 0 {
		n = 0
	}
	return c08Build(r, gridPt{fam: fam, mode: i % 2, b: pick(r, bigBatches), r: rr, s: s, n: n})
}

func genC11Big(r *Rng) *Scenario {
	n := pick(r, bigSizes)
	flavour := pick(r, []string{"text", "num"})
	init := bigStore(n, flavour)
	k := func(j int) string { return fmt.Sprintf("k%07d", j%n) }
	h := HistStmt{Kind: "delete", Mode: genMode(r)}
	switch r.Intn(6) {
	case 0:
		if flavour == "text" {
			h.Pred = fmt.Sprintf("value ^= 'V%04d'", r.Intn(n/1000))
		} else {
			h.Pred = fmt.Sprintf("int(value) > %d", 100003-r.Range(50, 9000))
		}
	case 1:
		h.Pred = "key > ''"
		h.HasLimit, h.Off, h.Cnt = true, pick(r, []int{0, 4096, 65535, 65536}), pick(r, []int{10, 4097, 65536})
	case 2:
		h.Pred = "key between " + quote(k(r.Intn(n))) + " and " + quote(k(n-1)) + " & value != 'zz'"
		h.HasLimit, h.Off, h.Cnt = r.Bool(), pick(r, []int{0, 5, 4097}), pick(r, []int{3, 4096, 66000})
	case 3:
		// a long literal key set (direct removal); the list is bounded because kvql evaluates IN per row over the whole list
		m := pick(r, []int{1100, 2100})
		ks := make([]string, m)
		for j := range ks {
			ks[j] = k((j*37 + 11) % n)
			if j%50 == 7 {
				ks[j] = ks[j] + "x" // absent
			}
		}
		h.Pred = "key in " + inList(ks)
		if r.Bool() {
			h.Pred += " & value != 'zz'"
		}
	case 4:
		h.Pred = "value != 'zz'"
		h.HasLimit, h.Off, h.Cnt = true, pick(r, []int{65530, 65536, n - 5}), 20
	default:
		h.Pred = "strlen(key) = 8 & value >= ''"
	}
	sc := &Scenario{Family: "big", Cfg: Config{Batch: pick(r, bigBatches), Cache: r.Bool(), Lazy: r.Bool()}, Init: init, Hist: []HistStmt{h}}
	sc.Clients = []Client{{Stmts: histStmts(sc.Hist)}}
	return sc
}

// lateFailingExpr: fails when evaluated, not when planned (no constant sub-expression to fold).
func lateFailingExpr(r *Rng) string {
	return pick(r, []string{"str(4 / int('0'))", "str(7 / (strlen('a') - 1))", "('x' + str(9 / int('0')))", "str(4 / (2 - 2))"})
}

func genC12Big(r *Rng) *Scenario {
	sc := &Scenario{Family: "big", Cfg: Config{Batch: pick(r, bigBatches), Cache: r.Bool(), Lazy: r.Bool()}, Init: []KV{}}
	lit := func(s string) string { return quote(s) }
	put := HistStmt{Kind: "put", Mode: genMode(r), Extra: genPollPattern(r)}
	form := r.Intn(5)
	switch form {
	case 0, 1: // thousands of pairs
		m := pick(r, []int{1100, 4200, 20000, 66000})
		for j := 0; j < m; j++ {
			k, v := fmt.Sprintf("b%06d", j), fmt.Sprintf("val%d", j)
			p := HistPair{K: k, V: v, KT: lit(k), VT: lit(v)}
			if j%97 == 5 {
				p.V = "v" + k
				p.VT = "'v' + key"
			}
			put.Pairs = append(put.Pairs, p)
		}
		if form == 1 { // the same key hundreds or thousands of times: the last mention wins
			reps := pick(r, []int{300, 1030, m / 2})
			for j := 0; j < reps; j++ {
				at := (j*131 + 17) % m
				put.Pairs[at].K, put.Pairs[at].KT = "dupkey", lit("dupkey")
				if put.Pairs[at].VT == "'v' + key" {
					put.Pairs[at].V = "vdupkey"
				}
			}
		}
	case 2: // megabytes of payload
		total := pick(r, []int{70 << 10, 300 << 10, 1200 << 10, 2600 << 10, 6 << 20})
		np := pick(r, []int{3, 9, 40})
		for j := 0; j < np; j++ {
			k, v := fmt.Sprintf("big%03d", j), strings.Repeat(pick(r, []string{"v", "ab", "0123456789"}), total/np)[:total/np]
			put.Pairs = append(put.Pairs, HistPair{K: k, V: v, KT: lit(k), VT: lit(v)})
		}
	case 3: // an expression that fails far into the list: nothing at all may be written
		m := pick(r, []int{1100, 4200, 66000})
		for j := 0; j < m; j++ {
			k, v := fmt.Sprintf("b%06d", j), fmt.Sprintf("val%d", j)
			put.Pairs = append(put.Pairs, HistPair{K: k, V: v, KT: lit(k), VT: lit(v)})
		}
		at := pick(r, []int{m - 1, m - 2, 1025, 4097, 65537, m / 2})
		if at >= m {
			at = m - 1
		}
		put.Pairs[at].Fail = "value"
		put.Pairs[at].VT = lateFailingExpr(r)
	default: // long keys and values
		for j := 0; j < r.Range(2, 6); j++ {
			k := fmt.Sprintf("L%d_", j) + strings.Repeat("k", pick(r, []int{255, 256, 1000, 65535, 65536, 70000}))
			v := strings.Repeat("w", pick(r, []int{0, 255, 65535, 65536, 66000}))
			put.Pairs = append(put.Pairs, HistPair{K: k, V: v, KT: lit(k), VT: lit(v)})
		}
	}
	sc.Hist = append(sc.Hist, put)
	model := map[string]string{}
	if !put.ExpectFail() {
		applyHist(model, &put)
	}
	probe := func(k string) { sc.Hist = append(sc.Hist, HistStmt{Kind: "probe", Key: k, Mode: genMode(r)}) }
	probe(put.Pairs[0].K)
	probe(put.Pairs[len(put.Pairs)-1].K)
	probe(put.Pairs[len(put.Pairs)/2].K)
	if form == 1 {
		probe("dupkey")
	}
	// then a REMOVE of many of them (and of keys that are not there)
	rem := HistStmt{Kind: "remove", Mode: genMode(r), Extra: genPollPattern(r)}
	step := pick(r, []int{1, 2, 3})
	for j := 0; j < len(put.Pairs); j += step {
		k := put.Pairs[j].K
		if j%41 == 3 {
			k += "_absent"
		}
		rem.Pairs = append(rem.Pairs, HistPair{K: k, KT: lit(k)})
	}
	if r.Chance(0.3) && len(rem.Pairs) > 300 { // one key listed hundreds of times
		for j := 0; j < 300; j++ {
			rem.Pairs[(j*7)%len(rem.Pairs)] = HistPair{K: put.Pairs[1%len(put.Pairs)].K, KT: lit(put.Pairs[1%len(put.Pairs)].K)}
		}
	}
	if r.Chance(0.5) && len(rem.Pairs) > 1000 {
		// a key expression that fails far into the list: nothing at all may be removed
		at := pick(r, []int{len(rem.Pairs) - 1, 1025, 4097, 4100, 65537, len(rem.Pairs) / 2})
		if at >= len(rem.Pairs) {
			at = len(rem.Pairs) - 1
		}
		rem.Pairs[at].Fail = "key"
		rem.Pairs[at].KT = lateFailingExpr(r)
	}
	sc.Hist = append(sc.Hist, rem)
	if !rem.ExpectFail() {
		applyHist(model, &rem)
	}
	probe(put.Pairs[0].K)
	probe(put.Pairs[len(put.Pairs)-1].K)
	sc.Clients = []Client{{Stmts: histStmts(sc.Hist)}}
	return sc
}

// genC03Extra: statements from the other properties' generators, judged here
// for row/batch agreement: key-pinning clauses over byte-level alphabets,
// predicate trees over byte-keyed stores, and IN lists of more than a thousand
// items (over small stores: kvql evaluates IN per row over the whole list).
func genC03Extra(r *Rng, i int) *Scenario {
	cfg := Config{Batch: pickBatch(r), Cache: r.Bool(), Alias: r.Chance(0.3), Lazy: r.Chance(0.3)}
	switch r.Intn(4) {
	case 0:
		src := genC18Case(r, i, "quick", 0.7)
		st := src.Clients[0].Stmts[len(src.Clients[0].Stmts)-1]
		return &Scenario{Family: "pin", Cfg: cfg, Init: src.Init, Clients: []Client{{Stmts: []Stmt{{Text: st.Text}}}}}
	case 1:
		init := genStore(r, pick(r, []int{3, 8, 15, 26}), StoreBytes)
		g := newPredGen(r, init)
		text := pick(r, []string{"select * where ", "select key, value where ", "delete where ", "select key, upper(value), strlen(key) where "}) + topPred(g)
		return &Scenario{Family: "pred-bytes", Cfg: cfg, Init: init, Clients: []Client{{Stmts: []Stmt{{Text: text}}}}}
	default:
		style := pick(r, []string{StoreInts, StoreText, StoreMixed})
		init := genStore(r, pick(r, []int{5, 30, 60, 120}), style)
		m := pick(r, []int{300, 1030, 1100, 2100, 4200})
		lits := make([]string, m)
		num := style == StoreInts && r.Bool()
		for j := range lits {
			if num {
				lits[j] = fmt.Sprint(1000 + j)
			} else {
				lits[j] = quote(fmt.Sprintf("none%d", j))
			}
		}
		// the values (or keys) that do occur are scattered over the whole list
		byKey := r.Chance(0.3) && !num
		for _, kv := range init {
			if !r.Chance(0.6) {
				continue
			}
			x := kv.V
			if byKey {
				x = kv.K
			}
			if num {
				if _, ok := isDecimalInt(x); !ok {
					continue
				}
				lits[r.Intn(m)] = x
			} else if isQuotable(x) {
				lits[r.Intn(m)] = quote(x)
			}
		}
		list := "(" + strings.Join(lits, ", ") + ")"
		var text string
		switch {
		case num:
			text = "select key, int(value) as n where n in " + list
		case byKey:
			text = pick(r, []string{"select * where key in ", "delete where key in ", "select key where value != 'zz' & key in "}) + list
		default:
			text = pick(r, []string{"select key, value where value in ", "select key, upper(value) as u where value in ", "select key, value as v where v in ", "delete where value in "}) + list
		}
		return &Scenario{Family: "longlist", Cfg: cfg, Init: init, Clients: []Client{{Stmts: []Stmt{{Text: text}}}}}
	}
}
