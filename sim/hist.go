package main

import (
	"fmt"
	"sort"
	"strconv"
	"strings"
)

// ---------------------------------------------------------------------------
// Histories of write statements whose effect is known BY CONSTRUCTION: every
// key/value expression is built from its intended value by the harness's own
// tiny semantics (string literal, integer literal -> decimal text,
// concatenation, upper/lower of ASCII, str(int), integer + - *, and `key`
// inside a value expression). The model is a Go map; nothing of kvql's
// evaluator is re-implemented.
// ---------------------------------------------------------------------------

type HistPair struct {
	K    string `json:"k"`              // intended key
	V    string `json:"v,omitempty"`    // intended value
	KT   string `json:"kt"`             // key expression text
	VT   string `json:"vt,omitempty"`   // value expression text
	Fail string `json:"fail,omitempty"` // "", "key" or "value": this expression fails at evaluation time
}

type HistStmt struct {
	Kind  string     `json:"kind"` // put | remove | probe | delete | select
	Pairs []HistPair `json:"pairs,omitempty"`
	Key   string     `json:"key,omitempty"`  // probe
	Text  string     `json:"text,omitempty"` // delete/select: literal text
	Mode  string     `json:"mode"`
	Extra []string   `json:"extra,omitempty"`
	// delete oracle parameters (C11)
	Pred     string `json:"pred,omitempty"`
	HasLimit bool   `json:"has_limit,omitempty"`
	Off      int    `json:"off,omitempty"`
	Cnt      int    `json:"cnt,omitempty"`
	Pad      int    `json:"pad,omitempty"`
}

func (h *HistStmt) Render() string {
	switch h.Kind {
	case "put":
		parts := make([]string, len(h.Pairs))
		for i, p := range h.Pairs {
			parts[i] = "(" + p.KT + ", " + p.VT + ")"
		}
		return "put " + strings.Join(parts, ", ")
	case "remove":
		parts := make([]string, len(h.Pairs))
		for i, p := range h.Pairs {
			parts[i] = p.KT
		}
		return "remove " + strings.Join(parts, ", ")
	case "probe":
		return "select * where key = " + quote(h.Key)
	case "delete":
		t := "delete where " + h.Pred
		if h.HasLimit {
			if h.Off > 0 {
				t += fmt.Sprintf(" limit %0*d, %0*d", h.Pad, h.Off, h.Pad, h.Cnt)
			} else {
				t += fmt.Sprintf(" limit %0*d", h.Pad, h.Cnt)
			}
		}
		return t
	}
	return h.Text
}

func (h *HistStmt) Stmt() Stmt {
	return Stmt{Text: h.Render(), Mode: h.Mode, Extra: h.Extra}
}

func (h *HistStmt) ExpectFail() bool {
	for _, p := range h.Pairs {
		if p.Fail != "" {
			return true
		}
	}
	return false
}

func isDecimalInt(s string) (int64, bool) {
	if s == "" || len(s) > 9 {
		return 0, false
	}
	n, err := strconv.ParseInt(s, 10, 64)
	if err != nil || strconv.FormatInt(n, 10) != s || n < 0 {
		return 0, false
	}
	return n, true
}

func hasLower(s string) bool {
	for i := 0; i < len(s); i++ {
		if s[i] >= 'a' && s[i] <= 'z' {
			return true
		}
	}
	return false
}
func hasUpper(s string) bool {
	for i := 0; i < len(s); i++ {
		if s[i] >= 'A' && s[i] <= 'Z' {
			return true
		}
	}
	return false
}
func isASCIIPlain(s string) bool {
	for i := 0; i < len(s); i++ {
		c := s[i]
		if c < 0x20 || c > 0x7e || c == '\'' || c == '"' || c == '`' || c == '\\' {
			return false
		}
	}
	return true
}

// numExpr renders an integer-typed expression whose value is n (n >= 0).
func numExpr(r *Rng, n int64, depth int) string {
	if depth <= 0 || r.Chance(0.4) {
		if r.Chance(0.03) {
			// a non-canonical spelling of the same integer
			return pick(r, []string{"00", "0", "000"}) + strconv.FormatInt(n, 10)
		}
		return strconv.FormatInt(n, 10)
	}
	switch r.Intn(4) {
	case 0:
		a := int64(r.Intn(int(n%1000) + 1))
		if a > n {
			a = n
		}
		return "(" + numExpr(r, a, depth-1) + " + " + numExpr(r, n-a, depth-1) + ")"
	case 1:
		b := int64(r.Intn(20))
		return "(" + numExpr(r, n+b, depth-1) + " - " + numExpr(r, b, depth-1) + ")"
	case 2:
		for _, d := range []int64{7, 5, 3, 2} {
			if n > 0 && n%d == 0 {
				return "(" + numExpr(r, n/d, depth-1) + " * " + numExpr(r, d, depth-1) + ")"
			}
		}
		return "(" + numExpr(r, n, depth-1) + " * 1)"
	default:
		return "int(" + quote(strconv.FormatInt(n, 10)) + ")"
	}
}

// textExpr renders an expression (static type text or number) whose value,
// once converted to text, is `target`. keyVal is the evaluated key of the pair
// when the expression is a PUT value (nil otherwise).
func textExpr(r *Rng, target string, keyVal *string, depth int) string {
	if n, ok := isDecimalInt(target); ok && r.Chance(0.6) {
		if r.Chance(0.3) {
			return "str(" + numExpr(r, n, depth) + ")"
		}
		return numExpr(r, n, depth)
	}
	if keyVal != nil && r.Chance(0.5) {
		kv := *keyVal
		switch {
		case target == kv:
			return "key"
		case kv != "" && strings.HasPrefix(target, kv):
			return "key + " + strExpr(r, target[len(kv):], depth-1)
		case kv != "" && strings.HasSuffix(target, kv):
			return strExpr(r, target[:len(target)-len(kv)], depth-1) + " + key"
		case isASCIIPlain(kv) && target == strings.ToUpper(kv) && hasLower(kv):
			return "upper(key)"
		case isASCIIPlain(kv) && target == strings.ToLower(kv) && hasUpper(kv):
			return "lower(key)"
		}
	}
	return strExpr(r, target, depth)
}

// strExpr renders a text-typed expression with value target.
func strExpr(r *Rng, target string, depth int) string {
	if depth <= 0 || r.Chance(0.35) {
		return quote(target)
	}
	switch r.Intn(4) {
	case 0:
		if len(target) >= 1 {
			i := r.Range(0, len(target))
			return "(" + strExpr(r, target[:i], depth-1) + " + " + strExpr(r, target[i:], depth-1) + ")"
		}
	case 1:
		if !hasLower(target) && hasUpper(target) && isASCIIPlain(target) { // case mapping of bytes that are not text is the engine's business, not this harness's
			return "upper(" + strExpr(r, mixCase(r, target), depth-1) + ")"
		}
	case 2:
		if !hasUpper(target) && hasLower(target) && isASCIIPlain(target) {
			return "lower(" + strExpr(r, mixCase(r, target), depth-1) + ")"
		}
	case 3:
		if n, ok := isDecimalInt(target); ok {
			return "str(" + numExpr(r, n, depth-1) + ")"
		}
	}
	return quote(target)
}

func mixCase(r *Rng, s string) string {
	b := []byte(s)
	for i := range b {
		if r.Bool() {
			if b[i] >= 'a' && b[i] <= 'z' {
				b[i] -= 32
			} else if b[i] >= 'A' && b[i] <= 'Z' {
				b[i] += 32
			}
		}
	}
	return string(b)
}

// failingExpr renders an expression that type-checks but fails when
// evaluated: integer division by a non-literal zero.
func failingExpr(r *Rng) string {
	z := pick(r, []string{"(2 - 2)", "(0 * 5)", "(3 - (1 + 2))", "int('0')"})
	switch r.Intn(3) {
	case 0:
		return "(4 / " + z + ")"
	case 1:
		return "str(7 / " + z + ")"
	default:
		return "(1 + (9 / " + z + "))"
	}
}

var histKeyPool = []string{"", "a", "ab", "abc", "k1", "k2", "k3", "k10", "K1", "AB", "10", "7", "x-y", "b", "zz", "m_1", "k001", "k002", "k\xff", "\xff", "k\x00", "u\xe4\xb8"}
var histValPool = []string{"v", "v1", "v2", "V", "hello", "Hello", "12", "0", "5", "", "x y", "val_a", "k1", "a-b", "1000", "v\xff", "\x80"}

// floatForms are float-typed expressions; their text form is whatever the
// engine's own str() says (the harness does not mirror a format).
var floatForms = []string{"1.5", "(3 * 0.5)", "float('2')", "(0.25 + 2)", "(10.5 - 0.5)", "2.0"}

var engineStrCache = map[string]string{}

// engineStr returns the text the engine's str() gives for a constant expression.
func engineStr(expr string) (string, bool) {
	if v, ok := engineStrCache[expr]; ok {
		return v, v != "\x00"
	}
	w := NewWorld([]KV{{"p", "1"}}, Config{Batch: 4}, nil, "str")
	r := execStmt(w.H, 0, Stmt{Text: "select str(" + expr + ") where key = 'p'", Mode: ModeRow}, Config{Batch: 4})
	if r.Failed() || len(r.Rows) != 1 || len(r.Rows[0]) != 1 {
		engineStrCache[expr] = "\x00"
		return "", false
	}
	t, ok := unquoteCanon(r.Rows[0][0])
	if !ok {
		engineStrCache[expr] = "\x00"
		return "", false
	}
	engineStrCache[expr] = t
	return t, true
}

func genHistPair(r *Rng, withValue bool) HistPair {
	k := pick(r, histKeyPool)
	p := HistPair{K: k, KT: textExpr(r, k, nil, 2)}
	if r.Chance(0.04) {
		ff := pick(r, floatForms)
		if t, ok := engineStr(ff); ok {
			p.K, p.KT = t, ff
			k = t
		}
	}
	if withValue {
		var v string
		switch r.Intn(5) {
		case 0:
			v = k
		case 1:
			v = k + pick(r, []string{"-v", "_1", ""})
		case 2:
			v = strings.ToUpper(k)
		default:
			v = pick(r, histValPool)
		}
		p.V = v
		p.VT = textExpr(r, v, &k, 2)
		if r.Chance(0.04) {
			ff := pick(r, floatForms)
			if t, ok := engineStr(ff); ok {
				p.V, p.VT = t, ff
			}
		}
	}
	return p
}

func genPollPattern(r *Rng) []string {
	n := pick(r, []int{0, 0, 1, 2, 3, 6})
	if r.Chance(0.004) {
		n = pick(r, []int{101, 150, 260})
	}
	out := make([]string, n)
	for i := range out {
		if r.Bool() {
			out[i] = "next"
		} else {
			out[i] = "batch"
		}
	}
	return out
}

func genMode(r *Rng) string {
	if r.Bool() {
		return ModeRow
	}
	return ModeBatch
}

func genPutStmt(r *Rng, allowFail bool) HistStmt {
	n := pick(r, []int{1, 1, 2, 3, 4, 6})
	if r.Chance(0.08) {
		n = r.Range(7, 45) // longer than any batch size / small-slice special case
	}
	if r.Chance(0.003) {
		n = pick(r, []int{255, 256, 257, 300, 400, 1025, 1300})
	}
	h := HistStmt{Kind: "put", Mode: genMode(r), Extra: genPollPattern(r)}
	for i := 0; i < n; i++ {
		h.Pairs = append(h.Pairs, genHistPair(r, true))
	}
	if n > 1 && r.Chance(0.4) { // duplicate key on purpose
		d := genHistPair(r, true)
		src := h.Pairs[r.Intn(len(h.Pairs))]
		d.K, d.KT = src.K, textExpr(r, src.K, nil, 2)
		kk := d.K
		d.VT = textExpr(r, d.V, &kk, 2)
		h.Pairs[len(h.Pairs)-1] = d
	}
	if allowFail && r.Chance(0.2) {
		i := pick(r, []int{0, len(h.Pairs) / 2, len(h.Pairs) - 1})
		if r.Bool() {
			h.Pairs[i].Fail = "key"
			h.Pairs[i].KT = failingExpr(r)
		} else {
			h.Pairs[i].Fail = "value"
			h.Pairs[i].VT = failingExpr(r)
		}
	}
	return h
}

func genRemoveStmt(r *Rng, model map[string]string, allowFail bool) HistStmt {
	n := pick(r, []int{1, 1, 2, 3, 6})
	if r.Chance(0.06) {
		n = r.Range(7, 40)
	}
	h := HistStmt{Kind: "remove", Mode: genMode(r), Extra: genPollPattern(r)}
	present := sortedKeys(model)
	for i := 0; i < n; i++ {
		var p HistPair
		if len(present) > 0 && r.Chance(0.7) {
			k := pick(r, present)
			if !isQuotable(k) {
				k = "a"
			}
			p = HistPair{K: k, KT: textExpr(r, k, nil, 2)}
		} else {
			p = genHistPair(r, false)
		}
		h.Pairs = append(h.Pairs, p)
	}
	if allowFail && r.Chance(0.15) {
		i := pick(r, []int{0, len(h.Pairs) / 2, len(h.Pairs) - 1})
		h.Pairs[i].Fail = "key"
		h.Pairs[i].KT = failingExpr(r)
	}
	return h
}

func sortedKeys(m map[string]string) []string {
	ks := make([]string, 0, len(m))
	for k := range m {
		ks = append(ks, k)
	}
	sort.Strings(ks)
	return ks
}

func modelFromInit(init []KV) map[string]string {
	m := map[string]string{}
	for _, kv := range init {
		m[kv.K] = kv.V
	}
	return m
}

func modelDump(m map[string]string) []KV {
	ks := sortedKeys(m)
	out := make([]KV, len(ks))
	for i, k := range ks {
		out[i] = KV{k, m[k]}
	}
	return out
}

// applyHist applies a put/remove statement's intended effect to the model.
func applyHist(m map[string]string, h *HistStmt) {
	switch h.Kind {
	case "put":
		for _, p := range h.Pairs {
			m[p.K] = p.V
		}
	case "remove":
		for _, p := range h.Pairs {
			delete(m, p.K)
		}
	}
}

func diffKVs(got, want []KV) string {
	gm, wm := map[string]string{}, map[string]string{}
	for _, kv := range got {
		gm[kv.K] = kv.V
	}
	for _, kv := range want {
		wm[kv.K] = kv.V
	}
	var parts []string
	for _, kv := range want {
		if v, ok := gm[kv.K]; !ok {
			parts = append(parts, fmt.Sprintf("missing %q=%q", kv.K, kv.V))
		} else if v != kv.V {
			parts = append(parts, fmt.Sprintf("%q holds %q, expected %q", kv.K, v, kv.V))
		}
	}
	for _, kv := range got {
		if _, ok := wm[kv.K]; !ok {
			parts = append(parts, fmt.Sprintf("unexpected %q=%q", kv.K, kv.V))
		}
	}
	if len(parts) > 6 {
		parts = append(parts[:6], fmt.Sprintf("… %d more", len(parts)-6))
	}
	return strings.Join(parts, "; ")
}
