package main

import (
	"fmt"
	"sort"
	"strings"
)

// C13 — SELECT is read-only, rejected statements touch nothing, storage
// errors surface. Fault enumeration: a single fault at EVERY position of the
// fault-free storage-call sequence, every applicable kind, both drain modes.

func init() {
	register(&Prop{
		ID:    "C13",
		Level: "fault_enumeration",
		Rule:  "case = (statement template instance, generated store, batch size, drain mode); for each case the fault-free storage-call sequence is recorded and then ONE fault is injected at every position i of it, for every fault kind applicable to call i's operation (err for all; err-applied for writes; err-partial for batch writes), each in a fresh simulated store. distinct_nontrivial counts distinct (plan-node chain, drain mode, faulted operation, phase build/poll0/poll1/poll2+, fault kind) tuples in which the faulted call was actually reached. One index in 157 is a scale case: key lists and PUTs of hundreds to thousands of items, 70 KiB..6 MiB of payload, DELETEs and scans over 260..4200 pairs at batch sizes up to 4097; fault positions of such cases are sampled (see explanation_exhaustive).",
		Assumptions: []string{
			"storage contract of DESIGN.md §3.3 (snapshot cursors, Get->nil for missing keys)",
			"the caller stops polling at the first error, as the README loop does; behaviour of further polls after an error is outside the property",
			"an error counts as 'that error' if errors.As finds the injected *SimFault or the error text contains the fault's unique token; at every fifth call index the injected value is io.EOF itself and at every seventh context.Canceled itself (values a library might be tempted to interpret rather than surface): there, errors.Is or the value's text decides",
			"statement templates and stores are sampled by seed; positions within each sampled case are enumerated exhaustively",
		},
		Real: "real: all of github.com/c4pt0r/kvql built from /repo's working tree (lexer, parser, checker, optimizers, every plan node, functions) and beorn7/perks; simulated: the storage engine behind kvql.Storage/kvql.Cursor (SimStorage) and the calling application (driver)",
		NCases: func(tier string) int {
			if tier == "thorough" {
				return 1200000
			}
			return 40000
		},
		Gen:        genC13,
		Run:        runC13,
		Shrink:     shrinkC13,
		Exhaustive: func(string) bool { return false },
		Finish: func(st *Stats, cov map[string]any, tier string) string {
			cov["exhaustive_within_case"] = true
			cov["explanation_exhaustive"] = "every call position of every sampled case is faulted (exhaustive within the case) when the fault-free sequence has at most 300 calls; for the rare scale cases (hundreds to thousands of calls) both ends, the usual thresholds, about 25-40 evenly spaced positions and the writes (all up to 60, else both ends and about 25 evenly spaced) are faulted, thinned further (never below 12 runs) when statement length x call count exceeds 1e8/runs; the cases themselves are sampled"
			if st.Counters["prefix_diverged"] > 0 {
				return "the storage-call prefix before an injected fault differed from the fault-free run: the execution is not deterministic"
			}
			return ""
		},
	})
}

// pickStoredValue: a value some stored pairs hold (so that a comparison with it accepts some rows and rejects others).
func pickStoredValue(r *Rng, in []KV) string {
	for try := 0; try < 6 && len(in) > 0; try++ {
		if v := in[r.Intn(len(in))].V; isQuotable(v) && len(v) < 40 {
			return v
		}
	}
	return "v1"
}

type c13tmpl struct {
	name string
	gen  func(r *Rng, init []KV) string
}

var c13Templates = []c13tmpl{
	{"sel-mget1", func(r *Rng, in []KV) string { return "select * where key = " + quote(pickKey(r, in)) }},
	{"sel-mget1-rev", func(r *Rng, in []KV) string { return "select key, value where " + quote(pickKey(r, in)) + " = key" }},
	{"sel-mgetN", func(r *Rng, in []KV) string { return "select * where key in " + inList(pickKeys(r, in, r.Range(2, 6))) }},
	{"sel-mget-filter", func(r *Rng, in []KV) string {
		return "select key, value where key in " + inList(pickKeys(r, in, r.Range(2, 7))) + " & value != 'x'"
	}},
	{"sel-mget-or", func(r *Rng, in []KV) string {
		return "select * where key = " + quote(pickKey(r, in)) + " | key = " + quote(pickKey(r, in))
	}},
	{"sel-prefix", func(r *Rng, in []KV) string { return "select * where key ^= " + quote(pickPrefix(r, in)) }},
	{"sel-prefix-alias", func(r *Rng, in []KV) string {
		return "select key, upper(value) as u where key ^= " + quote(pickPrefix(r, in)) + " & u != 'ZZ'"
	}},
	{"sel-range-bounded", func(r *Rng, in []KV) string {
		a, b := pickKey(r, in), pickKey(r, in)
		if a > b {
			a, b = b, a
		}
		return "select * where key > " + quote(a) + " & key <= " + quote(b)
	}},
	{"sel-range-lower", func(r *Rng, in []KV) string { return "select key where key >= " + quote(pickKey(r, in)) }},
	{"sel-range-upper", func(r *Rng, in []KV) string { return "select * where key < " + quote(pickKey(r, in)) }},
	{"sel-between", func(r *Rng, in []KV) string {
		a, b := pickKey(r, in), pickKey(r, in)
		if a > b {
			a, b = b, a
		}
		return "select * where key between " + quote(a) + " and " + quote(b+"~")
	}},
	{"sel-full", func(r *Rng, in []KV) string { return "select * where value != " + quote(pick(r, valuePoolText)) }},
	{"sel-full-alias", func(r *Rng, in []KV) string {
		return fmt.Sprintf("select key, int(value) as n where n > %d", r.Intn(6))
	}},
	{"sel-full-fn", func(r *Rng, in []KV) string {
		return "select key, strlen(value), lower(key) + '-' + value where is_int(value) | value ^= 'v'"
	}},
	{"sel-order", func(r *Rng, in []KV) string {
		return "select key, value where key ^= " + quote(pickPrefix(r, in)) + " order by value desc"
	}},
	{"sel-order2-limit", func(r *Rng, in []KV) string {
		return fmt.Sprintf("select key, value where key ^= %s order by value, key desc limit %d, %d", quote(pickPrefix(r, in)), r.Intn(4), r.Range(1, 5))
	}},
	{"sel-order-full", func(r *Rng, in []KV) string { return "select key, int(value) as n where value != 'q' order by n" }},
	{"sel-aggr-all", func(r *Rng, in []KV) string {
		return "select count(1), sum(int(value)), max(int(value)) where key ^= " + quote(pickPrefix(r, in))
	}},
	{"sel-aggr-group", func(r *Rng, in []KV) string {
		return "select substr(key, 0, 2) as p, count(1) as c where key ^= 'k' group by p"
	}},
	{"sel-aggr-group-limit", func(r *Rng, in []KV) string {
		return fmt.Sprintf("select value, count(1) as c, group_concat(key, ',') where key > 'a' group by value limit %d, %d", r.Intn(3), r.Range(1, 4))
	}},
	{"sel-aggr-group-order-limit", func(r *Rng, in []KV) string {
		return fmt.Sprintf("select value, count(1) as c where key ^= 'k' group by value order by c desc limit %d", r.Range(1, 4))
	}},
	{"sel-limit", func(r *Rng, in []KV) string {
		return fmt.Sprintf("select * where key ^= %s limit %d, %d", quote(pickPrefix(r, in)), r.Intn(8), r.Range(1, 9))
	}},
	{"sel-limit-full", func(r *Rng, in []KV) string {
		return fmt.Sprintf("select key where value != 'nope' limit %d", r.Range(1, 12))
	}},
	{"sel-empty", func(r *Rng, in []KV) string { return "select * where key = 'a' & key = 'b'" }},
	{"sel-json", func(r *Rng, in []KV) string {
		return "select key, json(value)['a'] where key ^= " + quote(pickPrefix(r, in)) + " & value ^= '{'"
	}},
	{"sel-in-split", func(r *Rng, in []KV) string {
		return "select key, split(value, ',') as l where key ^= " + quote(pickPrefix(r, in))
	}},
	{"where-only", func(r *Rng, in []KV) string { return "where key ^= " + quote(pickPrefix(r, in)) }},

	{"put1", func(r *Rng, in []KV) string {
		return "put (" + quote(pickKey(r, in)) + ", " + quote(pick(r, valuePoolText)) + ")"
	}},
	{"putN", func(r *Rng, in []KV) string {
		n := r.Range(2, 5)
		parts := make([]string, n)
		for i := range parts {
			parts[i] = "(" + quote(pickKey(r, in)) + ", upper('v' + key))"
		}
		return "put " + strings.Join(parts, ", ")
	}},
	{"remove1", func(r *Rng, in []KV) string { return "remove " + quote(pickKey(r, in)) }},
	{"removeN", func(r *Rng, in []KV) string {
		ks := pickKeys(r, in, r.Range(2, 5))
		q := make([]string, len(ks))
		for i := range ks {
			q[i] = quote(ks[i])
		}
		return "remove " + strings.Join(q, ", ")
	}},
	{"del-prefix", func(r *Rng, in []KV) string { return "delete where key ^= " + quote(pickPrefix(r, in)) }},
	{"del-mget-shortcut", func(r *Rng, in []KV) string {
		return "delete where key in " + inList(pickKeys(r, in, r.Range(1, 5)))
	}},
	{"del-mget-filter", func(r *Rng, in []KV) string {
		return "delete where key in " + inList(pickKeys(r, in, r.Range(2, 6))) + " & value != 'x'"
	}},
	{"del-limit", func(r *Rng, in []KV) string {
		return fmt.Sprintf("delete where key ^= %s limit %d, %d", quote(pickPrefix(r, in)), r.Intn(5), r.Range(1, 7))
	}},
	{"del-full", func(r *Rng, in []KV) string { return "delete where value ^= 'v' | is_int(value)" }},
	{"del-range", func(r *Rng, in []KV) string {
		a, b := pickKey(r, in), pickKey(r, in)
		if a > b {
			a, b = b, a
		}
		return "delete where key >= " + quote(a) + " & key < " + quote(b)
	}},
	{"del-empty", func(r *Rng, in []KV) string { return "delete where key = 'a' & key = 'b'" }},
	// a selective filter under a pinned scan: one Batch call of the scan then reads several
	// chunks (some yielding nothing), and a DELETE or a satisfied LIMIT sits above it
	{"del-prefix-filter", func(r *Rng, in []KV) string {
		return "delete where key ^= " + quote(pickPrefix(r, in)) + " & value != " + quote(pickStoredValue(r, in))
	}},
	{"del-range-filter-limit", func(r *Rng, in []KV) string {
		return fmt.Sprintf("delete where key >= %s & value != %s limit %d", quote(pickKey(r, in)), quote(pickStoredValue(r, in)), r.Range(1, 6))
	}},
	{"sel-prefix-filter-limit", func(r *Rng, in []KV) string {
		return fmt.Sprintf("select * where key ^= %s & value != %s limit %d", quote(pickPrefix(r, in)), quote(pickStoredValue(r, in)), r.Range(1, 5))
	}},
	{"sel-range-filter-limit", func(r *Rng, in []KV) string {
		return fmt.Sprintf("select key where key > %s & value = %s limit %d, %d", quote(pickKey(r, in)), quote(pickStoredValue(r, in)), r.Intn(3), r.Range(1, 4))
	}},
	{"sel-prefix-filter-order-limit", func(r *Rng, in []KV) string {
		return fmt.Sprintf("select key, value where key ^= %s & value != %s order by value limit %d", quote(pickPrefix(r, in)), quote(pickStoredValue(r, in)), r.Range(1, 4))
	}},

	// statements that must be rejected at parse/plan time
	{"rej-type", func(r *Rng, in []KV) string { return "select * where key = 1" }},
	{"rej-func", func(r *Rng, in []KV) string { return "select nosuchfn(key) where key ^= 'k'" }},
	{"rej-eof", func(r *Rng, in []KV) string { return "select * where" }},
	{"rej-put-value", func(r *Rng, in []KV) string { return "put ('a', value)" }},
	{"rej-remove-key", func(r *Rng, in []KV) string { return "remove key" }},
	{"rej-delete-nonbool", func(r *Rng, in []KV) string { return "delete where key + 'x'" }},
	{"rej-limit", func(r *Rng, in []KV) string { return "select * where key ^= 'k' limit" }},
	{"rej-keyword", func(r *Rng, in []KV) string { return "selec * where key = 'a'" }},
	{"rej-missing-groupby", func(r *Rng, in []KV) string { return "select count(1), key where key ^= 'k'" }},
	{"rej-order-unknown", func(r *Rng, in []KV) string { return "select key where key ^= 'k' order by nosuch" }},
	{"rej-put-syntax", func(r *Rng, in []KV) string { return "put ('a' 'b')" }},
	{"rej-delete-more", func(r *Rng, in []KV) string { return "delete where key = 'a' limit 1 2 3" }},
}

func genC13(seed uint64, i int, tier string) *Scenario {
	r := NewRng(seed)
	if (i/(2*len(c13Templates)))%3 == 2 {
		// every third round: a statement from the typed generator (any plan shape the language can produce)
		style := pick(r, []string{StoreMixed, StoreInts, StoreNum, StoreText})
		g := newGen(r, style)
		b := pickBatch(r)
		var text string
		switch r.Intn(8) {
		case 0:
			text = g.PutText()
		case 1:
			text = g.RemoveText()
		case 2:
			text = g.DeleteStmt().Render(false)
		default:
			text = g.Select(r.Bool()).Render(false)
		}
		return &Scenario{
			Family:  "generated",
			Cfg:     Config{Batch: b, Cache: r.Bool(), Alias: r.Chance(0.3), Lazy: r.Chance(0.3)},
			Init:    genStore(r, pick(r, []int{0, 2, 5, 9, 14, 25}), style),
			Clients: []Client{{Stmts: []Stmt{{Text: text, Mode: genMode(r)}}}},
		}
	}
	if (i/(2*len(c13Templates)))%5 == 3 {
		// single-edit corruptions of valid statements: mostly rejected at parse/plan
		// time (must touch nothing); the accepted ones are just more statements
		style := pick(r, []string{StoreMixed, StoreInts, StoreText})
		g := newGen(r, style)
		var text string
		switch r.Intn(6) {
		case 0:
			text = g.PutText()
		case 1:
			text = g.RemoveText()
		case 2:
			text = g.DeleteStmt().Render(false)
		default:
			text = g.Select(r.Bool()).Render(false)
		}
		return &Scenario{
			Family:  "corrupted",
			Cfg:     Config{Batch: pickBatch(r), Cache: r.Bool()},
			Init:    genStore(r, pick(r, []int{0, 3, 8}), style),
			Clients: []Client{{Stmts: []Stmt{{Text: corruptText(r, text), Mode: genMode(r)}}}},
		}
	}
	if i%157 == 77 { // 157: coprime to the worker count, so these slow cases spread over all workers
		return genC13Scale(r)
	}
	t := c13Templates[i%len(c13Templates)]
	size := pick(r, []int{0, 1, 3, 6, 12, 20, 35, 50})
	if r.Chance(0.003) {
		// scale: hundreds of storage calls per statement (fault positions are then sampled, see runC13)
		size = pick(r, []int{260, 400, 1100})
	}
	if tier == "thorough" && r.Chance(0.2) {
		size = r.Range(0, 70)
	}
	style := pick(r, []string{StoreMixed, StoreInts, StoreText, StoreMixed, StoreMixed, StoreInts, StoreText, StoreMixed, StoreBytes})
	init := genStore(r, size, style)
	mode := ModeRow
	if (i/len(c13Templates))%2 == 1 {
		mode = ModeBatch
	}
	cfg := Config{Batch: pickBatch(r), Cache: r.Bool(), Alias: r.Chance(0.3), Lazy: r.Chance(0.3)}
	return &Scenario{
		Family:  t.name,
		Cfg:     cfg,
		Init:    init,
		Clients: []Client{{Stmts: []Stmt{{Text: t.gen(r, init), Mode: mode}}}},
	}
}

// genC13Scale: statements whose size is far from the everyday ones — key lists
// of hundreds to thousands of keys, PUTs of hundreds of pairs or megabytes of
// payload, DELETEs and scans over thousands of rows with batch sizes up to
// thousands. Code paths that only exist above a size threshold (chunked
// writes, merged lookups, oversized batches) are reached only here. Fault
// positions of such cases are sampled (see runC13).
func genC13Scale(r *Rng) *Scenario {
	size := pick(r, []int{260, 400, 1100, 2100, 4200})
	style := pick(r, []string{StoreMixed, StoreInts, StoreText})
	init := genStore(r, size, style)
	keys := make([]string, len(init))
	for j := range init {
		keys[j] = init[j].K
	}
	shuffle(r, keys)
	// n distinct keys: mostly existing ones, a few missing
	distinct := func(n int) []string {
		out := make([]string, 0, n)
		for j := 0; len(out) < n; j++ {
			if j < len(keys) && !r.Chance(0.05) {
				out = append(out, keys[j])
			} else {
				out = append(out, fmt.Sprintf("zz%05d", j))
			}
		}
		if r.Bool() {
			sort.Strings(out)
		}
		return out
	}
	nlist := pick(r, []int{130, 260, 520, 700, 1030}) // kvql evaluates IN per row over the whole list: rows x list comparisons per run
	bigval := func(n int) string {
		return strings.Repeat(pick(r, []string{"v", "ab", "0123456789"}), n)[:n]
	}
	var text string
	switch r.Intn(16) {
	case 0:
		text = "select * where key in " + inList(distinct(nlist))
	case 1:
		text = "select key, value where key in " + inList(distinct(nlist)) + " & value != 'x'"
	case 2:
		ks := distinct(pick(r, []int{130, 300, 520}))
		parts := make([]string, len(ks))
		for j, k := range ks {
			parts[j] = "key = " + quote(k)
		}
		text = "select key where " + strings.Join(parts, " | ")
	case 3:
		text = "delete where key in " + inList(distinct(nlist))
	case 4:
		text = "delete where key in " + inList(distinct(nlist)) + " & value != 'x'"
	case 5:
		ks := distinct(nlist)
		q := make([]string, len(ks))
		for j := range ks {
			q[j] = quote(ks[j])
		}
		text = "remove " + strings.Join(q, ", ")
	case 6:
		ks := distinct(pick(r, []int{130, 600, 1100, 2500}))
		parts := make([]string, len(ks))
		for j, k := range ks {
			parts[j] = "(" + quote(k) + ", " + quote(pick(r, valuePoolText)) + ")"
		}
		text = "put " + strings.Join(parts, ", ")
	case 7:
		// megabytes of payload in one PUT
		total := pick(r, []int{70 << 10, 300 << 10, 1200 << 10, 2600 << 10, 6 << 20})
		np := pick(r, []int{3, 5, 9, 40})
		parts := make([]string, np)
		for j := range parts {
			parts[j] = "(" + quote(fmt.Sprintf("big%03d", j)) + ", " + quote(bigval(total/np)) + ")"
		}
		text = "put " + strings.Join(parts, ", ")
	case 8:
		text = "delete where " + pick(r, []string{"key >= ''", "value != 'zz'", "key ^= 'k'", "strlen(value) >= 0"})
	case 9:
		text = fmt.Sprintf("delete where key > '' limit %d, %d", pick(r, []int{0, 3, 130, 300}), pick(r, []int{100, 129, 300, 1025, 3000}))
	case 10:
		text = "select * where " + pick(r, []string{"key ^= 'k'", "value != 'zz'", "key > ''"})
	case 11:
		text = "select key, value where key > '' order by value" + pick(r, []string{"", " desc", ", key desc"})
	case 12:
		text = "select value, count(1) as c, max(key) where key > '' group by value" + pick(r, []string{"", " order by c desc", " limit 3"})
	case 13:
		text = fmt.Sprintf("select key where value != 'zz' limit %d, %d", pick(r, []int{0, 100, 255, 1024, 1500}), pick(r, []int{1, 129, 257, 1025, 3000}))
	case 14:
		text = "select count(1), sum(strlen(value)) where key > ''"
	default:
		a, b := keys[0], keys[len(keys)/2]
		if a > b {
			a, b = b, a
		}
		text = pick(r, []string{"select *", "delete"}) + " where key >= " + quote(a) + " & key <= " + quote(b)
	}
	return &Scenario{
		Family:  "scale",
		Cfg:     Config{Batch: pick(r, []int{1, 3, 32, 65, 129, 257, 1000, 4097}), Cache: r.Bool(), Alias: r.Chance(0.3), Lazy: r.Chance(0.3)},
		Init:    init,
		Clients: []Client{{Stmts: []Stmt{{Text: text, Mode: genMode(r)}}}},
	}
}

func evSame(a, b *Event) bool {
	if a.Op != b.Op || a.Key != b.Key || a.End != b.End || a.Poll != b.Poll || len(a.Keys) != len(b.Keys) {
		return false
	}
	for i := range a.Keys {
		if a.Keys[i] != b.Keys[i] {
			return false
		}
	}
	return true
}

func phaseOf(poll int) string {
	switch {
	case poll < 0:
		return "build"
	case poll == 0:
		return "poll0"
	case poll == 1:
		return "poll1"
	}
	return "poll2+"
}

func runC13(sc *Scenario, st *Stats) []Violation {
	var vs []Violation
	stmts := sc.Clients[0].Stmts
	stmt := stmts[len(stmts)-1]
	w0, rs0 := runStmts(sc, sc.Cfg, stmts, nil)
	st.noteRun(w0, rs0)
	r0 := rs0[len(rs0)-1]
	base := w0.H.log[r0.EvFrom:r0.EvTo]
	shape := planShape(r0.Explain)
	if r0.BuildErr != "" {
		shape = "rejected"
	}
	sigBase := fmt.Sprintf("stmt=%s plan=%s mode=%s", stmtKind(stmt.Text), shape, stmt.Mode)
	add := func(kind, detail, sig string) {
		vs = append(vs, Violation{Prop: "C13", Kind: kind, Detail: detail + " | statement: " + stmt.Text, Sig: sigBase + " " + sig})
	}

	// --- fault-free obligations -------------------------------------------
	nMut := 0
	for i := range base {
		if isMutating(base[i].Op) {
			nMut++
		}
	}
	if isSelectText(stmt.Text) && r0.BuildErr == "" {
		st.Inc("select_runs_checked_readonly")
		if nMut > 0 {
			add("select-mutates", fmt.Sprintf("SELECT issued %d mutating storage operation(s)", nMut), "")
		}
	}
	if r0.BuildErr != "" {
		st.Inc("rejected_statements")
		if len(base) == 0 {
			st.Inc("rejected_with_zero_storage_calls")
		}
		if nMut > 0 {
			add("rejected-mutates", fmt.Sprintf("statement rejected (%s) yet issued %d mutating storage operation(s)", oneLine(r0.BuildErr, 80), nMut), "")
		}
	}
	if r0.Panic != "" || r0.StepCap {
		// not this property's business (C06); cannot enumerate positions reliably
		st.Inc("faultfree_did_not_complete")
		return vs
	}
	for _, n := range r0.Explain {
		nm := n
		if j := strings.IndexByte(n, '{'); j >= 0 {
			nm = n[:j]
		}
		st.Inc("node:" + nm)
	}
	if len(sc.Faults) == 0 && len(base) > 0 {
		st.Sample(map[string]any{"statement": stmt.Text, "mode": stmt.Mode, "batch": sc.Cfg.Batch, "store_pairs": len(sc.Init),
			"plan": r0.Explain, "fault_free_calls": len(base), "positions_faulted": len(base)}, 4)
	}

	// --- read-only sweep ------------------------------------------------------
	// More SELECTs than can be fault-enumerated: a few generator statements per
	// case, fault-free, both drain modes, judged only for "never invokes a
	// mutating storage operation" (a write hidden behind a rare function, plan
	// shape or result size would show here).
	if len(sc.Faults) == 0 {
		rr := NewRng(sc.Seed ^ 0x5e1ec7)
		g := newGen(rr, StoreMixed)
		for k := 0; k < 4; k++ {
			text := g.Select(rr.Bool()).Render(false)
			for _, mode := range []string{ModeRow, ModeBatch} {
				wq, rq := runStmts(sc, sc.Cfg, []Stmt{{Text: text, Mode: mode}}, nil)
				st.noteRun(wq, rq)
				if rq[0].BuildErr != "" {
					break
				}
				st.Inc("select_runs_checked_readonly")
				for _, e := range wq.H.log {
					if isMutating(e.Op) {
						vs = append(vs, Violation{Prop: "C13", Kind: "select-mutates",
							Detail: fmt.Sprintf("SELECT issued %s %s%v | statement: %s", e.Op, e.Key, e.Keys, text),
							Sig:    "stmt=select plan=" + planShape(rq[0].Explain) + " mode=" + mode + " sweep",
							Pinned: &Scenario{Prop: "C13", Seed: sc.Seed, Cfg: sc.Cfg, Init: sc.Init, Family: "readonly-sweep",
								Clients: []Client{{Stmts: []Stmt{{Text: text, Mode: mode}}}}}})
						break
					}
				}
			}
		}
	}

	// --- single-fault enumeration ------------------------------------------
	type fk struct {
		call int
		kind string
		part int
	}
	var plan []fk
	if len(sc.Faults) > 0 {
		for _, f := range sc.Faults {
			plan = append(plan, fk{f.Call, f.Kind, f.Part})
		}
	} else {
		nw, wi := 0, -1
		for i := range base {
			if isMutating(base[i].Op) {
				nw++
			}
		}
		for i := range base {
			mut := isMutating(base[i].Op)
			if mut {
				wi++
			}
			if n := len(base); n > 300 {
				// long sequences: both ends, evenly spaced calls (about 40, about 25 beyond 1000
				// calls), the usual thresholds, and the writes (all of them up to 60; beyond that
				// both ends and about 25 evenly spaced)
				step := n/40 + 1
				if n > 1000 {
					step = n/25 + 1
				}
				keep := i < 10 || i >= n-10 || i%step == 0 || i == 255 || i == 256 || i == 511 || i == 512 || i == 1023 || i == 1024
				if mut && (nw <= 60 || wi < 8 || wi >= nw-8 || wi%(nw/25+1) == 0) {
					keep = true
				}
				if !keep {
					continue
				}
			}
			plan = append(plan, fk{r0.EvFrom + i, FErr, 0})
			if isMutating(base[i].Op) {
				plan = append(plan, fk{r0.EvFrom + i, FApplied, 0})
			}
			if base[i].Op == OpBPut || base[i].Op == OpBDel {
				n := len(base[i].Keys)
				plan = append(plan, fk{r0.EvFrom + i, FPartial, n / 2})
				if n > 1 {
					plan = append(plan, fk{r0.EvFrom + i, FPartial, n - 1})
				}
			}
		}
	}
	if len(sc.Faults) == 0 && (len(base) > 300 || len(stmt.Text) > 2000) {
		// scale cases only: kvql's cost per run grows with (statement length x rows) — IN
		// lists and OR chains are evaluated per row over the whole list — so the number of
		// faulted runs is bounded by a deterministic cost estimate; the kept entries are
		// evenly spaced over the plan (first and last always)
		cost := len(stmt.Text) * (len(base) + 1)
		maxRuns := 100000000 / cost
		if maxRuns < 12 {
			maxRuns = 12
		}
		if len(plan) > maxRuns {
			var kept []fk
			for j := 0; j < maxRuns; j++ {
				kept = append(kept, plan[j*(len(plan)-1)/(maxRuns-1)])
			}
			plan = kept
			st.Inc("scale_plan_subsampled")
		}
	}
	for _, f := range plan {
		if f.call < r0.EvFrom || f.call >= r0.EvTo {
			continue
		}
		flt := []Fault{{Call: f.call, Kind: f.kind, Part: f.part}}
		w, rs := runStmts(sc, sc.Cfg, stmts, flt)
		st.noteRun(w, rs)
		r := rs[len(rs)-1]
		log := w.H.log
		be := &base[f.call-r0.EvFrom]
		st.Inc("pos:" + be.Op)
		fsig := fmt.Sprintf("op=%s phase=%s kind=%s", be.Op, phaseOf(be.Poll), f.kind)
		if len(w.H.fired) == 0 {
			st.Inc("prefix_diverged")
			continue
		}
		// prefix unchanged
		diverged := false
		for j := r0.EvFrom; j <= f.call && j < len(log); j++ {
			if j == f.call {
				if log[j].Op != w0.H.log[j].Op {
					diverged = true
				}
				break
			}
			if !evSame(&log[j], &w0.H.log[j]) {
				diverged = true
				break
			}
		}
		if diverged {
			st.Inc("prefix_diverged")
			continue
		}
		st.Seen(shape + "|" + stmt.Mode + "|" + fsig)
		token := log[f.call].Err
		where := fmt.Sprintf("fault %s at call #%d (%s %s, %s)", f.kind, f.call, be.Op, be.Key, phaseOf(be.Poll))
		mk := func(kind, detail string) {
			v := Violation{Prop: "C13", Kind: kind, Detail: where + ": " + detail + " | statement: " + stmt.Text, Sig: sigBase + " " + fsig}
			if len(vs) >= 12 {
				return // one case, one cause: a dozen reports of it are enough (each pins a copy of the scenario)
			}
			if len(sc.Faults) == 0 {
				c := *sc // statements and store are shared, not copied: nothing mutates them
				c.Faults = flt
				v.Pinned = &c
			}
			vs = append(vs, v)
		}
		if len(log) > f.call+1 {
			nx := log[f.call+1]
			mk("further-ops", fmt.Sprintf("%d further storage operation(s) after the failed call; next was %s %s", len(log)-f.call-1, nx.Op, nx.Key))
		}
		switch {
		case r.Panic != "":
			mk("fault-panic", "the statement panicked instead of returning the error: "+r.Panic)
		case r.StepCap:
			mk("fault-no-termination", "the statement did not terminate after the failed call")
		case r.BuildErr == "" && r.Err == "":
			mk("error-swallowed", fmt.Sprintf("no error reached the caller; it received %d row(s) and end-of-stream", len(r.Rows)))
		case !isFaultErr(r.ErrObj, token):
			mk("error-replaced", fmt.Sprintf("the caller received a different error: %q (injected: %s)", oneLine(errText(r.ErrObj), 120), token))
		}
	}
	return vs
}

// C13 violations found during enumeration are reported against a scenario
// that pins the single fault (see wrapC13Found in worker loop via Shrink).
func shrinkC13(sc *Scenario) []*Scenario {
	var out []*Scenario
	out = append(out, shrinkInit(sc)...)
	out = append(out, shrinkConfig(sc)...)
	return out
}

// corruptText applies one edit to a statement text.
func corruptText(r *Rng, t string) string {
	toks := strings.Fields(t)
	if len(toks) < 2 {
		return t + " ("
	}
	i := r.Intn(len(toks))
	switch r.Intn(8) {
	case 0: // drop a token
		toks = append(toks[:i], toks[i+1:]...)
	case 1: // duplicate a token
		toks = append(toks[:i+1], toks[i:]...)
	case 2: // swap neighbours
		if i+1 < len(toks) {
			toks[i], toks[i+1] = toks[i+1], toks[i]
		}
	case 3: // truncate
		toks = toks[:i+1]
	case 4: // misspell a keyword
		toks[i] = toks[i] + "x"
	case 5: // type confusion: a number where text is expected and vice versa
		if strings.HasPrefix(toks[i], "'") {
			toks[i] = "7"
		} else {
			toks[i] = "'q'"
		}
	case 6: // unbalanced parenthesis
		toks[i] = strings.Replace(toks[i], "(", "", 1)
	default: // stray operator
		toks = append(toks[:i+1], append([]string{pick(r, []string{"&", "+", "=", ",", "limit", "as"})}, toks[i+1:]...)...)
	}
	return strings.Join(toks, " ")
}
