package main

// Private PRNG: splitmix64 for seed derivation, xoshiro256** for streams.
// Not math/rand, so streams are identical across Go releases.

type Rng struct{ s [4]uint64 }

func splitmix64(x *uint64) uint64 {
	*x += 0x9e3779b97f4a7c15
	z := *x
	z = (z ^ (z >> 30)) * 0xbf58476d1ce4e5b9
	z = (z ^ (z >> 27)) * 0x94d049bb133111eb
	return z ^ (z >> 31)
}

func fnv64(s string) uint64 {
	h := uint64(1469598103934665603)
	for i := 0; i < len(s); i++ {
		h ^= uint64(s[i])
		h *= 1099511628211
	}
	return h
}

// deriveSeed mixes the master seed, a property/family label and a run index.
func deriveSeed(master int64, label string, i int) uint64 {
	x := uint64(master)*0x9e3779b97f4a7c15 ^ fnv64(label)
	a := splitmix64(&x)
	x ^= uint64(i) * 0xd1342543de82ef95
	b := splitmix64(&x)
	return a ^ (b << 1) ^ uint64(i)
}

func NewRng(seed uint64) *Rng {
	r := &Rng{}
	x := seed
	for i := range r.s {
		r.s[i] = splitmix64(&x)
	}
	return r
}

func rotl(x uint64, k uint) uint64 { return (x << k) | (x >> (64 - k)) }

func (r *Rng) U64() uint64 {
	s := &r.s
	res := rotl(s[1]*5, 7) * 9
	t := s[1] << 17
	s[2] ^= s[0]
	s[3] ^= s[1]
	s[1] ^= s[2]
	s[0] ^= s[3]
	s[2] ^= t
	s[3] = rotl(s[3], 45)
	return res
}

// Intn returns a value in [0,n). n<=0 returns 0.
func (r *Rng) Intn(n int) int {
	if n <= 1 {
		return 0
	}
	return int(r.U64() % uint64(n))
}

// Range returns a value in [lo,hi].
func (r *Rng) Range(lo, hi int) int {
	if hi <= lo {
		return lo
	}
	return lo + r.Intn(hi-lo+1)
}

func (r *Rng) Float() float64 { return float64(r.U64()>>11) / float64(1<<53) }

func (r *Rng) Bool() bool { return r.U64()&1 == 1 }

func (r *Rng) Chance(p float64) bool { return r.Float() < p }

func pick[T any](r *Rng, xs []T) T { return xs[r.Intn(len(xs))] }

func shuffle[T any](r *Rng, xs []T) {
	for i := len(xs) - 1; i > 0; i-- {
		j := r.Intn(i + 1)
		xs[i], xs[j] = xs[j], xs[i]
	}
}
