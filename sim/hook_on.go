//go:build verif

package main

import "github.com/c4pt0r/kvql"

// hooksBuilt: /repo was compiled with the verif tag, so kvql.SimYield exists.
const hooksBuilt = true

func installHook() { kvql.SimYield = schedYieldHook }
func removeHook()  { kvql.SimYield = nil }
