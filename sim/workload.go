package main

import (
	"fmt"
	"sort"
	"strings"
)

// ---------------------------------------------------------------------------
// Shared workload pieces: stores and literals.
// Keys come from a small alphabet arranged so that prefixes, adjacent keys and
// gaps all occur; values from pools that exercise the conversions.
// ---------------------------------------------------------------------------

var valuePoolInt = []string{"0", "1", "2", "3", "5", "7", "10", "12", "42", "-3", "100"}

// numbers at the edges of the narrower integer types
var valuePoolBig = []string{"255", "256", "65535", "65536", "2147483647", "2147483648", "4294967296", "9223372036854775807", "-9223372036854775808", "-2147483649"}
var valuePoolFloat = []string{"0.5", "1.5", "2.25", "-0.75", "3.0", "10.125"}
var valuePoolText = []string{"v", "val", "x", "abc", "Hello", "zz", "v1", "v2", "val_a", "val_b", ""}
var valuePoolList = []string{"a,b,c", "1,2,3", "x", "a,,b", "4,5"}
var valuePoolJSON = []string{`{"a":1,"b":"x"}`, `{"a":2,"b":"y","l":[1,2,3]}`, `{"a":3,"n":{"m":"deep"}}`, `{"b":"only"}`}

// store styles
const (
	StoreInts  = "ints"  // all values decimal integers
	StoreMixed = "mixed" // everything
	StoreText  = "text"
	StoreJSON  = "json"
	StoreNum   = "num" // ints and floats
	// StoreCollide: keys and values chosen so that different (value, key) tuples
	// have equal concatenations ("ab"+"c" = "a"+"bc")
	StoreCollide = "collide"
	// StoreUnicode: non-ASCII (valid UTF-8) and control characters in keys and values
	StoreUnicode = "unicode"
	// StoreBytes: keys and values are byte strings, not text: 0x80-0xFF outside any
	// UTF-8 sequence, truncated sequences, NUL, and prefixes ending in 0xFF
	StoreBytes = "bytes"
)

var valuePoolBytes = []string{"\xff", "v\x80x", "\xc3", "\xe4\xb8", "a\x00b", "\xfe\xff", "1", "12", "v1", "x", ""}

var valuePoolUnicode = []string{"é", "日本", "naïve", "ß", "Ünï", "a\x00b", "tab\there", "line\nbreak", "😀", "٣", "１２", " 12 ", "1e2", "0x10", "+5", "-0", "1_000", "NaN", "Inf"}

var longValues = []string{strings.Repeat("x", 300), strings.Repeat("ab,", 40), "v" + strings.Repeat("0", 70), strings.Repeat("9", 25)}

func genValue(r *Rng, style string) string {
	if r.Chance(0.004) {
		return pick(r, longValues)
	}
	if r.Chance(0.01) && style != StoreText && style != StoreJSON {
		return pick(r, valuePoolBig)
	}
	switch style {
	case StoreInts:
		return pick(r, valuePoolInt)
	case StoreText:
		return pick(r, valuePoolText)
	case StoreJSON:
		return pick(r, valuePoolJSON)
	case StoreBytes:
		if r.Chance(0.6) {
			return pick(r, valuePoolBytes)
		}
		return pick(r, valuePoolText)
	case StoreUnicode:
		if r.Chance(0.7) {
			return pick(r, valuePoolUnicode)
		}
		return pick(r, valuePoolText)
	case StoreNum:
		if r.Chance(0.6) {
			return pick(r, valuePoolInt)
		}
		return pick(r, valuePoolFloat)
	}
	switch r.Intn(10) {
	case 0, 1, 2:
		return pick(r, valuePoolInt)
	case 3:
		return pick(r, valuePoolFloat)
	case 4, 5, 6:
		return pick(r, valuePoolText)
	case 7:
		return pick(r, valuePoolList)
	default:
		return pick(r, valuePoolJSON)
	}
}

// keyUniverse returns candidate keys: odd ones (a, ab, ab0, b, …) and numbered
// families k000…, m00… so that prefixes, neighbours and gaps exist.
func keyUniverse(nk, nm int) []string {
	ks := []string{"a", "ab", "ab0", "ab1", "abc", "b", "b0", "c", "ka", "k", "l", "z", "zz"}
	for i := 0; i < nk; i++ {
		ks = append(ks, fmt.Sprintf("k%03d", i))
	}
	for i := 0; i < nm; i++ {
		ks = append(ks, fmt.Sprintf("m%02d", i))
	}
	return ks
}

// genStore builds an initial store with about n pairs.
func genStore(r *Rng, n int, style string) []KV {
	if n <= 0 {
		return []KV{}
	}
	if style == StoreUnicode {
		base := []string{"k000", "k001", "k002", "k003", "k004", "k005", "ké", "k日", "k\x00", "k\x7f", "Ω", "é", "k00ß", "K000", "k 0"}
		shuffle(r, base)
		if n > len(base) {
			n = len(base)
		}
		ks := append([]string{}, base[:n]...)
		sort.Strings(ks)
		out := make([]KV, len(ks))
		for i, k := range ks {
			out[i] = KV{k, genValue(r, style)}
		}
		return out
	}
	if style == StoreBytes {
		base := []string{"k\xff", "k\xfe", "k\xff0", "k\xff1", "k\xff2", "k\xff\xff", "k\xfe1", "k\xfe\xff", "\xff", "\x80", "k\x80a", "k\x00", "k\x00\x01",
			"u\xe4\xb8", "u\xe4\xba", "u\xe4\xb8\xad", "u\xe4\xb80", "u\xe4\xba0", "k000", "k001", "k002", "k003", "a", "z", "l", "k"}
		shuffle(r, base)
		if n > len(base) {
			n = len(base)
		}
		ks := append([]string{}, base[:n]...)
		sort.Strings(ks)
		out := make([]KV, len(ks))
		for i, k := range ks {
			out[i] = KV{k, genValue(r, style)}
		}
		return out
	}
	if style == StoreCollide {
		keys := []string{"a", "ab", "abc", "b", "bc", "c", "ca", "cab", "x", "xa", "ax", "k0", "k00", "0", "00"}
		vals := []string{"a", "ab", "abc", "b", "bc", "c", "ca", "", "x", "k", "k0", "0"}
		shuffle(r, keys)
		if n > len(keys) {
			n = len(keys)
		}
		ks := append([]string{}, keys[:n]...)
		sort.Strings(ks)
		out := make([]KV, len(ks))
		for i, k := range ks {
			out[i] = KV{k, pick(r, vals)}
		}
		return out
	}
	nk := n
	nm := n / 3
	uni := keyUniverse(nk, nm)
	// choose the numbered family densely and odd keys sparsely
	chosen := map[string]bool{}
	for len(chosen) < n && len(chosen) < len(uni) {
		var k string
		if r.Chance(0.75) {
			k = fmt.Sprintf("k%03d", r.Intn(nk))
		} else {
			k = pick(r, uni)
		}
		chosen[k] = true
	}
	keys := make([]string, 0, len(chosen))
	for k := range chosen {
		keys = append(keys, k)
	}
	if r.Chance(0.01) {
		// keys longer than any small fixed buffer
		for _, n := range []int{65, 256, 300} {
			if r.Bool() {
				k := "k" + strings.Repeat("y", n)
				if !chosen[k] {
					chosen[k] = true
					keys = append(keys, k)
				}
			}
		}
	}
	sort.Strings(keys)
	out := make([]KV, len(keys))
	for i, k := range keys {
		out[i] = KV{k, genValue(r, style)}
	}
	return out
}

// pickKey returns an existing key most of the time, otherwise an absent one.
func pickKey(r *Rng, init []KV) string {
	if len(init) > 0 && r.Chance(0.8) {
		return init[r.Intn(len(init))].K
	}
	return pick(r, []string{"a", "ab", "k", "k0000", "nokey", "zzz", "b1", "k999"})
}

func pickPrefix(r *Rng, init []KV) string {
	if len(init) > 0 && r.Chance(0.7) {
		k := init[r.Intn(len(init))].K
		return k[:r.Range(1, len(k))]
	}
	return pick(r, []string{"k", "k0", "k00", "a", "ab", "m", "q", "z", "k01"})
}

func quote(s string) string { return "'" + s + "'" }

func inList(keys []string) string {
	q := make([]string, len(keys))
	for i, k := range keys {
		q[i] = quote(k)
	}
	return "(" + strings.Join(q, ", ") + ")"
}

func pickKeys(r *Rng, init []KV, n int) []string {
	out := make([]string, n)
	for i := range out {
		out[i] = pickKey(r, init)
	}
	return out
}

func batchSizes() []int { return []int{1, 2, 3, 5, 32} }

func pickBatch(r *Rng) int {
	if r.Chance(0.03) {
		// far beyond any store the generators build, and around the powers of two
		return pick(r, []int{64, 65, 128, 129, 256, 1000, 1024, 4097})
	}
	if r.Chance(0.2) {
		return r.Range(4, 40)
	}
	return pick(r, batchSizes())
}

func isSelectText(t string) bool {
	t = strings.ToLower(strings.TrimSpace(t))
	return strings.HasPrefix(t, "select") || strings.HasPrefix(t, "where")
}

func stmtKind(t string) string {
	t = strings.ToLower(strings.TrimSpace(t))
	for _, k := range []string{"select", "where", "put", "remove", "delete"} {
		if strings.HasPrefix(t, k) {
			if k == "where" {
				return "select"
			}
			return k
		}
	}
	return "other"
}
