package main

import (
	"encoding/base64"
	"encoding/json"
	"strings"
	"unicode/utf8"
)

// Byte-safe JSON for the strings that carry keys, values and statement texts.
// kvql's lexer and the storage interface are byte-oriented, and keys such as
// "m\xff" (not valid UTF-8) are legal; encoding/json would silently replace
// such bytes by U+FFFD, and a scenario would then not replay (nor travel from
// a worker to the orchestrator) as executed. Strings that are not valid UTF-8
// are written as "\u0001b64:<base64>"; everything else is written as is.

const b64Mark = "\x01b64:"

func encStr(s string) string {
	if utf8.ValidString(s) && !strings.HasPrefix(s, b64Mark) {
		return s
	}
	return b64Mark + base64.StdEncoding.EncodeToString([]byte(s))
}

func decStr(s string) string {
	if !strings.HasPrefix(s, b64Mark) {
		return s
	}
	b, err := base64.StdEncoding.DecodeString(s[len(b64Mark):])
	if err != nil {
		return s
	}
	return string(b)
}

type kvJSON struct {
	K string `json:"k"`
	V string `json:"v"`
}

func (kv KV) MarshalJSON() ([]byte, error) { return json.Marshal(kvJSON{encStr(kv.K), encStr(kv.V)}) }
func (kv *KV) UnmarshalJSON(b []byte) error {
	var j kvJSON
	if err := json.Unmarshal(b, &j); err != nil {
		return err
	}
	kv.K, kv.V = decStr(j.K), decStr(j.V)
	return nil
}

type stmtPlain Stmt

func (s Stmt) MarshalJSON() ([]byte, error) {
	p := stmtPlain(s)
	p.Text = encStr(p.Text)
	return json.Marshal(p)
}
func (s *Stmt) UnmarshalJSON(b []byte) error {
	var p stmtPlain
	if err := json.Unmarshal(b, &p); err != nil {
		return err
	}
	p.Text = decStr(p.Text)
	*s = Stmt(p)
	return nil
}

type pinAtomPlain PinAtom

func (a PinAtom) MarshalJSON() ([]byte, error) {
	p := pinAtomPlain(a)
	p.Lits = make([]string, len(a.Lits))
	for i, l := range a.Lits {
		p.Lits[i] = encStr(l)
	}
	return json.Marshal(p)
}
func (a *PinAtom) UnmarshalJSON(b []byte) error {
	var p pinAtomPlain
	if err := json.Unmarshal(b, &p); err != nil {
		return err
	}
	for i := range p.Lits {
		p.Lits[i] = decStr(p.Lits[i])
	}
	*a = PinAtom(p)
	return nil
}

type histPairPlain HistPair

func (p HistPair) MarshalJSON() ([]byte, error) {
	q := histPairPlain(p)
	q.K, q.V, q.KT, q.VT = encStr(q.K), encStr(q.V), encStr(q.KT), encStr(q.VT)
	return json.Marshal(q)
}
func (p *HistPair) UnmarshalJSON(b []byte) error {
	var q histPairPlain
	if err := json.Unmarshal(b, &q); err != nil {
		return err
	}
	q.K, q.V, q.KT, q.VT = decStr(q.K), decStr(q.V), decStr(q.KT), decStr(q.VT)
	*p = HistPair(q)
	return nil
}

type histStmtPlain HistStmt

func (h HistStmt) MarshalJSON() ([]byte, error) {
	q := histStmtPlain(h)
	q.Key, q.Text, q.Pred = encStr(q.Key), encStr(q.Text), encStr(q.Pred)
	return json.Marshal(q)
}
func (h *HistStmt) UnmarshalJSON(b []byte) error {
	var q histStmtPlain
	if err := json.Unmarshal(b, &q); err != nil {
		return err
	}
	q.Key, q.Text, q.Pred = decStr(q.Key), decStr(q.Text), decStr(q.Pred)
	*h = HistStmt(q)
	return nil
}

type limitCasePlain LimitCase

func (l LimitCase) MarshalJSON() ([]byte, error) {
	q := limitCasePlain(l)
	q.Base = encStr(q.Base)
	return json.Marshal(q)
}
func (l *LimitCase) UnmarshalJSON(b []byte) error {
	var q limitCasePlain
	if err := json.Unmarshal(b, &q); err != nil {
		return err
	}
	q.Base = decStr(q.Base)
	*l = LimitCase(q)
	return nil
}

type gexprPlain GExpr

func (e GExpr) MarshalJSON() ([]byte, error) {
	q := gexprPlain(e)
	q.S = encStr(q.S)
	return json.Marshal(q)
}
func (e *GExpr) UnmarshalJSON(b []byte) error {
	var q gexprPlain
	if err := json.Unmarshal(b, &q); err != nil {
		return err
	}
	q.S = decStr(q.S)
	*e = GExpr(q)
	return nil
}
