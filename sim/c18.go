package main

import (
	"fmt"
	"sort"
	"strings"
	"sync"
)

// C18 — key-pinning filters read only the pinned keys or region from storage.
// Trace invariant over the simulated disk's read trace (the only vantage
// point from which that trace exists).

type PinAtom struct {
	Shape string   `json:"shape"` // eq, in, prefix, gt, gte, lt, lte, between
	Lits  []string `json:"lits"`
	Rev   bool     `json:"rev,omitempty"` // literal written on the left of the operator
}

type PinCase struct {
	Atoms     []PinAtom `json:"atoms"`            // top-level conjunction of pinning atoms (1 or 2)
	Opaque    string    `json:"opaque,omitempty"` // opaque value predicate conjoined, if any
	OpaqueFst bool      `json:"opaque_first,omitempty"`
	False     bool      `json:"false,omitempty"`    // the clause is the literal `false`
	AndWord   bool      `json:"and_word,omitempty"` // use `and` instead of `&`
	Fields    string    `json:"fields,omitempty"`
	Delete    bool      `json:"delete,omitempty"` // the clause belongs to a DELETE statement
	Limit     string    `json:"limit,omitempty"`  // " limit s, n" appended to the statement, if any
}

func (a *PinAtom) Render() string {
	q := func(i int) string { return quote(a.Lits[i]) }
	switch a.Shape {
	case "eq":
		if a.Rev {
			return q(0) + " = key"
		}
		return "key = " + q(0)
	case "in":
		return "key in " + inList(a.Lits)
	case "prefix":
		return "key ^= " + q(0)
	case "between":
		return "(key between " + q(0) + " and " + q(1) + ")"
	}
	op := map[string]string{"gt": ">", "gte": ">=", "lt": "<", "lte": "<="}[a.Shape]
	if a.Rev {
		// L op' key  with the mirrored operator so that the meaning is the same
		mir := map[string]string{">": "<", ">=": "<=", "<": ">", "<=": ">="}[op]
		return q(0) + " " + mir + " key"
	}
	return "key " + op + " " + q(0)
}

func (p *PinCase) Where() string {
	if p.False {
		return "false"
	}
	var parts []string
	for i := range p.Atoms {
		parts = append(parts, p.Atoms[i].Render())
	}
	if p.Opaque != "" {
		if p.OpaqueFst {
			parts = append([]string{p.Opaque}, parts...)
		} else {
			parts = append(parts, p.Opaque)
		}
	}
	and := " & "
	if p.AndWord {
		and = " and "
	}
	return strings.Join(parts, and)
}

func (p *PinCase) Text() string {
	if p.Delete {
		return "delete where " + p.Where() + p.Limit
	}
	f := p.Fields
	if f == "" {
		f = "*"
	}
	return "select " + f + " where " + p.Where() + p.Limit
}

// region semantics of one atom, closed at the literal on purpose.
func (a *PinAtom) contains(k string) bool {
	switch a.Shape {
	case "eq", "in":
		for _, l := range a.Lits {
			if l == k {
				return true
			}
		}
		return false
	case "prefix":
		return strings.HasPrefix(k, a.Lits[0])
	case "gt", "gte":
		return k >= a.Lits[0]
	case "lt", "lte":
		return k <= a.Lits[0]
	case "between":
		return k >= a.Lits[0] && k <= a.Lits[1]
	}
	return false
}

// start returns the lowest key of the region, ok=false when unbounded below.
func (a *PinAtom) start() (string, bool) {
	switch a.Shape {
	case "eq", "in":
		m := a.Lits[0]
		for _, l := range a.Lits {
			if l < m {
				m = l
			}
		}
		return m, true
	case "prefix", "gt", "gte", "between":
		return a.Lits[0], true
	}
	return "", false
}

func (a *PinAtom) isPoint() bool { return a.Shape == "eq" || a.Shape == "in" }

// exact (open/closed as written) satisfaction, used only to decide which
// literal keys "survive" the other pinning conjunct.
func (a *PinAtom) satisfies(k string) bool {
	switch a.Shape {
	case "gt":
		return k > a.Lits[0]
	case "lt":
		return k < a.Lits[0]
	}
	return a.contains(k)
}

func init() {
	register(&Prop{
		ID:    "C18",
		Level: "exploration",
		Rule:  "case = (canonical key-pinning WHERE shape with its literals from the alphabet {a,b,c} up to length 3, optional opaque value conjunct on either side, optional second pinning conjunct, store, batch size, drain mode). The invariant is evaluated over the simulated storage's read trace: every Get key lies in the union of the pinning conjuncts' closed regions; per end detection (delimited by caller polls and by write calls) at most two cursor keys lie outside it (one per plan node for plans of more than two nodes), and none inside it is read after one outside; no cursor key lies below the region start; =/IN shapes (alone, with an opaque conjunct, or with a prefix/range conjunct containing all their keys) issue no cursor Next at all and Get-read every surviving key; clauses unsatisfiable on their face issue no Get and no Next. quick samples; thorough enumerates all literal choices per shape. distinct_nontrivial counts distinct (shape tuple, literal tuple, opaque position, mode, batch) with at least one storage read or an unsatisfiable verdict. quick also draws: byte-level alphabets (8 %: literals and keys relabelled to bytes such as 0x00, 0x7f, 0x80, 0xfe, 0xff), key lists of 65..300 literals with batch sizes 64..1000, literals and keys of 70..300 bytes, chains of 20..300 opaque conjuncts around the pinning ones, a LIMIT above the pinned scan (12 %: offsets beyond the number of matching rows, counts below it).",
		Assumptions: []string{
			"closed bounds: reading the literal key itself for > and < is not a violation",
			"'at most one key beyond the end' is read per end detection: the scans keep no end-of-range state, so every time a finished scan is asked again it reads one more key. A plan detects the end when it gets the last rows and again when it gets nothing, and every draining node above the scan (LIMIT, DELETE, ORDER BY) may ask once more within one caller poll: tolerated per segment (caller poll, or stretch between two write calls) are two keys beyond the region, or as many as the plan has nodes if that is more; the whole-statement count is recorded as a number, not judged. A scan that does not stop at the region's end reads every remaining key of the store",
			"creating a cursor (and seeking) without reading from it is tolerated",
			"for a conjunction the allowed set is the union of its pinning conjuncts' regions ('one of its conjuncts')",
		},
		Real: "real: all of kvql from /repo's working tree; simulated: storage engine with read trace, caller",
		NCases: func(tier string) int {
			if tier == "thorough" {
				return len(c18Enum()) * 150
			}
			return 90000
		},
		Gen:        genC18,
		Run:        runC18,
		Shrink:     func(sc *Scenario) []*Scenario { return append(shrinkInit(sc), shrinkConfig(sc)...) },
		Exhaustive: func(tier string) bool { return false },
		Finish: func(st *Stats, cov map[string]any, tier string) string {
			if tier == "thorough" {
				cov["shape_literal_combinations_enumerated"] = len(c18Enum())
				cov["explanation_exhaustive"] = "all single atoms over all 40 literals (the empty string included; second literal of between/in over all 40 as well for single atoms), all ordered pairs of atoms over the 13 literals of length <= 2; each with 150 (store, batch, mode, opaque-position) draws"
			}
			return ""
		},
	})
}

var c18Alphabet = []string{"a", "b", "c"}

func c18Lits(maxLen int) []string {
	var out []string
	var rec func(p string, n int)
	rec = func(p string, n int) {
		if len(p) > 0 {
			out = append(out, p)
		}
		if n == 0 {
			return
		}
		for _, c := range c18Alphabet {
			rec(p+c, n-1)
		}
	}
	rec("", maxLen)
	sort.Strings(out)
	return out
}

// c18LitsE: the literal space including the empty string (a legal key).
func c18LitsE(maxLen int) []string { return append([]string{""}, c18Lits(maxLen)...) }

var c18Shapes = []PinAtom{
	{Shape: "eq"}, {Shape: "eq", Rev: true}, {Shape: "in"}, {Shape: "prefix"},
	{Shape: "gt"}, {Shape: "gte"}, {Shape: "lt"}, {Shape: "lte"},
	{Shape: "gt", Rev: true}, {Shape: "lte", Rev: true}, {Shape: "between"},
}

var (
	c18Once sync.Once
	c18All  []PinCase
)

func c18Enum() []PinCase {
	c18Once.Do(func() {
		l3 := c18LitsE(3)
		l2 := c18LitsE(2)
		mk := func(s PinAtom, l1, l2 string) (PinAtom, bool) {
			a := PinAtom{Shape: s.Shape, Rev: s.Rev}
			switch s.Shape {
			case "in":
				a.Lits = []string{l1, l2}
			case "between":
				if l1 >= l2 {
					return a, false
				}
				a.Lits = []string{l1, l2}
			default:
				a.Lits = []string{l1}
			}
			return a, true
		}
		for _, s := range c18Shapes {
			for _, x := range l3 {
				if s.Shape == "in" || s.Shape == "between" {
					for _, y := range l3 {
						if a, ok := mk(s, x, y); ok {
							c18All = append(c18All, PinCase{Atoms: []PinAtom{a}})
						}
					}
				} else {
					a, _ := mk(s, x, "")
					c18All = append(c18All, PinCase{Atoms: []PinAtom{a}})
				}
			}
		}
		for _, s1 := range c18Shapes {
			for _, x1 := range l2 {
				for _, s2 := range c18Shapes {
					for _, x2 := range l2 {
						y1 := x1 + "c"
						y2 := x2 + "b"
						a1, ok1 := mk(s1, x1, y1)
						a2, ok2 := mk(s2, x2, y2)
						if ok1 && ok2 {
							c18All = append(c18All, PinCase{Atoms: []PinAtom{a1, a2}})
						}
					}
				}
			}
		}
		c18All = append(c18All, PinCase{False: true})
	})
	return c18All
}

func c18Store(r *Rng) []KV {
	var keys []string
	all := c18Lits(4)
	n := pick(r, []int{0, 3, 8, 15, 30, 45})
	seen := map[string]bool{}
	for len(keys) < n {
		k := pick(r, all)
		if r.Chance(0.1) {
			k = pick(r, []string{"0", "A", "d", "zz", "ab0", "b~", "aaaa0", "", ""})
		}
		if !seen[k] {
			seen[k] = true
			keys = append(keys, k)
		}
	}
	if r.Chance(0.02) {
		for _, n := range []int{70, 255, 256, 300} {
			k := pick(r, c18Lits(2)) + strings.Repeat("a", n)
			if !seen[k] {
				seen[k] = true
				keys = append(keys, k)
			}
		}
	}
	sort.Strings(keys)
	out := make([]KV, len(keys))
	for i, k := range keys {
		out[i] = KV{k, pick(r, []string{"1", "2", "x", "v", "10"})}
	}
	return out
}

var c18Opaques = []string{"value = 'x'", "int(value) > 1", "value ~= '^[0-9]'", "value != 'v'", "is_int(value)"}

func genC18(seed uint64, i int, tier string) *Scenario {
	return genC18Case(NewRng(seed), i, tier, 0.08)
}

// genC18Case: bytesProb is the probability of a byte-level alphabet (also used
// by other properties' generators, which judge the same statements their way).
func genC18Case(r *Rng, i int, tier string, bytesProb float64) *Scenario {
	var pc PinCase
	if tier == "thorough" {
		e := c18Enum()
		pc = e[(i/150)%len(e)]
	} else {
		lits := c18Lits(3)
		lits = append(lits, "", "", "") // the empty string is a legal key and literal
		mkAtom := func() PinAtom {
			s := pick(r, c18Shapes)
			a := PinAtom{Shape: s.Shape, Rev: s.Rev}
			switch s.Shape {
			case "in":
				n := r.Range(1, 4)
				if r.Chance(0.04) {
					n = pick(r, []int{65, 130, 256, 300})
				}
				for j := 0; j < n; j++ {
					a.Lits = append(a.Lits, pick(r, lits))
				}
				if n > 4 {
					// many distinct keys, not just the alphabet's 39
					for j := range a.Lits {
						if j%3 == 0 {
							a.Lits[j] = a.Lits[j] + fmt.Sprintf("%03d", j)
						}
					}
				}
			case "between":
				x, y := pick(r, lits), pick(r, lits)
				if x > y {
					x, y = y, x
				}
				if x == y {
					y = y + "c"
				}
				a.Lits = []string{x, y}
			default:
				a.Lits = []string{pick(r, lits)}
				if r.Chance(0.005) {
					a.Lits[0] = pick(r, lits) + strings.Repeat("a", pick(r, []int{70, 255, 256, 300}))
				}
			}
			return a
		}
		switch r.Intn(20) {
		case 0:
			pc = PinCase{False: true}
		default:
			pc.Atoms = []PinAtom{mkAtom()}
			if r.Chance(0.45) {
				pc.Atoms = append(pc.Atoms, mkAtom())
				if r.Chance(0.25) {
					pc.Atoms = append(pc.Atoms, mkAtom())
				}
			}
		}
	}
	if !pc.False {
		switch r.Intn(3) {
		case 1:
			pc.Opaque = pick(r, c18Opaques)
		case 2:
			pc.Opaque = pick(r, c18Opaques)
			pc.OpaqueFst = true
		}
		pc.AndWord = r.Chance(0.3)
	}
	if !pc.False && tier != "thorough" && r.Chance(0.01) {
		// a long chain of opaque conjuncts around the pinning ones (the parse tree is
		// then hundreds of levels deep on one side)
		n := pick(r, []int{20, 70, 130, 300})
		parts := make([]string, n)
		for j := range parts {
			parts[j] = pick(r, []string{"value != 'q'", "strlen(value) < 9", "value != 'w'", "!(value = 'zz')"})
		}
		pc.Opaque = strings.Join(parts, pick(r, []string{" & ", " and "}))
		pc.OpaqueFst = r.Bool()
	}
	pc.Fields = pick(r, []string{"*", "key", "key, value", "key, int(value) as n"})
	pc.Delete = r.Chance(0.15)
	if tier != "thorough" && r.Chance(0.12) {
		// a LIMIT above the pinned scan: offsets beyond the number of matching rows, counts below it
		if r.Bool() {
			pc.Limit = fmt.Sprintf(" limit %d", r.Range(1, 5))
		} else {
			pc.Limit = fmt.Sprintf(" limit %d, %d", pick(r, []int{0, 1, 2, 7, 40}), r.Range(1, 5))
		}
	}
	mode := genMode(r)
	sc := &Scenario{Cfg: Config{Batch: pickBatch(r), Cache: r.Bool(), Alias: r.Chance(0.3), Lazy: r.Chance(0.3)}, Init: c18Store(r), K: &pc}
	for i := range pc.Atoms {
		if len(pc.Atoms[i].Lits) > 4 && r.Chance(0.7) {
			// long key lists meet large batch sizes
			sc.Cfg.Batch = pick(r, []int{64, 128, 129, 256, 1000})
		}
	}
	if tier != "thorough" && r.Chance(bytesProb) {
		// byte-level alphabets: keys and literals are byte strings, not text; the
		// order-preserving relabelling keeps every region relation of the case
		ab := pick(r, [][3]string{{"a", "b", "\xff"}, {"\x00", "a", "\xff"}, {"\x7f", "\x80", "\xff"}, {"a", "\xfe", "\xff"},
			{"\x00", "\x01", "\x02"}, {"A", "a", "~"}, {"A", "B", "C"}, {"A", "B", "C"}, {"B", "b", "c"}, {"\xc3", "\xe9", "\xff"}, {"a", "b", "\xc3\xa9"}})
		re := func(t string) string {
			var b strings.Builder
			for j := 0; j < len(t); j++ {
				switch t[j] {
				case 'a':
					b.WriteString(ab[0])
				case 'b':
					b.WriteString(ab[1])
				case 'c':
					b.WriteString(ab[2])
				default:
					b.WriteByte(t[j])
				}
			}
			return b.String()
		}
		for i := range pc.Atoms {
			for j := range pc.Atoms[i].Lits {
				pc.Atoms[i].Lits[j] = re(pc.Atoms[i].Lits[j])
			}
		}
		seen := map[string]bool{}
		var init []KV
		for _, kv := range sc.Init {
			if k := re(kv.K); !seen[k] {
				seen[k] = true
				init = append(init, KV{k, kv.V})
			}
		}
		sort.Slice(init, func(x, y int) bool { return init[x].K < init[y].K })
		sc.Init = init
	}
	stmts := []Stmt{}
	if r.Chance(0.3) {
		// part of the store is built by the engine's own PUT
		ks := c18Lits(3)
		var parts []string
		for j := 0; j < r.Range(1, 5); j++ {
			parts = append(parts, "("+quote(pick(r, ks))+", '7')")
		}
		stmts = append(stmts, Stmt{Text: "put " + strings.Join(parts, ", "), Mode: ModeRow})
	}
	stmts = append(stmts, Stmt{Text: pc.Text(), Mode: mode})
	sc.Clients = []Client{{Stmts: stmts}}
	return sc
}

// pinVerdict evaluates the trace invariant for the events of one statement.
// It is also used as a monitor on faulted runs (prefix-closed).
func pinVerdict(pc *PinCase, evs []Event, complete bool, planNodes int) (kind, detail string) {
	if len(evs) > 0 && !complete {
		// a faulted trace: the failed call returned nothing and is not judged itself
		trimmed := make([]Event, 0, len(evs))
		for _, e := range evs {
			if e.Err == "" {
				trimmed = append(trimmed, e)
			}
		}
		evs = trimmed
	}
	allowed := func(k string) bool {
		for i := range pc.Atoms {
			if pc.Atoms[i].contains(k) {
				return true
			}
		}
		return false
	}
	// "unsatisfiable on its face" is judged only for the forms the property
	// lists: `false`, and a conjunction whose pinning conjuncts are exactly two
	// disjoint equalities / prefixes / ranges. With a third conjunct in between
	// a planner that combines pairwise need not notice, and the reads it issues
	// are still confined to one conjunct's region (checked below).
	unsat := pc.False
	for i := 0; i < len(pc.Atoms) && !unsat && len(pc.Atoms) == 2; i++ {
		for j := i + 1; j < len(pc.Atoms) && !unsat; j++ {
			a, b := &pc.Atoms[i], &pc.Atoms[j]
			switch {
			case a.isPoint() && b.isPoint():
				common := false
				for _, l := range a.Lits {
					if b.contains(l) {
						common = true
					}
				}
				unsat = !common
			case a.Shape == "prefix" && b.Shape == "prefix":
				unsat = !strings.HasPrefix(a.Lits[0], b.Lits[0]) && !strings.HasPrefix(b.Lits[0], a.Lits[0])
			case isRangeShape(a.Shape) && isRangeShape(b.Shape):
				lo1, hi1 := rangeBounds(a)
				lo2, hi2 := rangeBounds(b)
				// disjoint on the face: one's closed upper bound is strictly below the other's closed lower bound
				unsat = (hi1 != nil && lo2 != nil && *hi1 < *lo2) || (hi2 != nil && lo1 != nil && *hi2 < *lo1)
			}
		}
	}
	nGet, nNext := 0, 0
	for _, e := range evs {
		if e.Op == OpGet {
			nGet++
		}
		if e.Op == OpNext {
			nNext++
		}
	}
	if unsat {
		if nGet > 0 || nNext > 0 {
			return "unsat-reads", fmt.Sprintf("clause is unsatisfiable on its face yet %d Get and %d cursor Next call(s) were issued", nGet, nNext)
		}
		return "", ""
	}
	// lowest region start
	var minStart *string
	bounded := true
	for i := range pc.Atoms {
		s, ok := pc.Atoms[i].start()
		if !ok {
			bounded = false
			break
		}
		if minStart == nil || s < *minStart {
			ss := s
			minStart = &ss
		}
	}
	// point-read obligation: a point atom (= / IN) alone, with opaque
	// conjuncts, with other point atoms, or with prefix/range conjuncts that
	// contain all of its keys must be answered by point reads of the keys that
	// survive every pinning conjunct.
	mustPoint := false
	var surviving []string
	for pi := range pc.Atoms {
		if !pc.Atoms[pi].isPoint() {
			continue
		}
		mustPoint = true
		surviving = nil
		for _, l := range pc.Atoms[pi].Lits {
			ok := true
			for j := range pc.Atoms {
				if j == pi {
					continue
				}
				if !pc.Atoms[j].satisfies(l) {
					ok = false
					if !pc.Atoms[j].isPoint() {
						// a region conjunct that does not contain all keys: no obligation under the adopted reading
						mustPoint = false
					}
				}
			}
			if ok {
				surviving = append(surviving, l)
			}
		}
		break
	}
	if pc.Delete || pc.Limit != "" {
		// a DELETE by literal key set may remove the keys without reading them;
		// under a LIMIT the statement may stop before it has read all of them
		surviving = nil
	}
	gets := map[string]bool{}
	outsideInPoll := map[int]int{}
	lastNextInPoll := map[int]int{}
	// An end detection is delimited by the caller's polls and, inside a DELETE
	// (which drains its child in a loop within one poll), by its write calls.
	seg := 0
	segOf := func(e *Event) int { return e.Poll*1000 + seg }
	for i := range evs {
		e := evs[i]
		if isMutating(e.Op) {
			seg++
			continue
		}
		e.Poll = segOf(&e)
		switch e.Op {
		case OpGet:
			gets[e.Key] = true
			if !allowed(e.Key) {
				return "get-outside", fmt.Sprintf("Get(%q) is outside every pinned set/region", e.Key)
			}
		case OpNext:
			if e.End || e.Err != "" {
				continue
			}
			lastNextInPoll[e.Poll] = i
			if bounded && minStart != nil && e.Key < *minStart {
				return "read-below-start", fmt.Sprintf("cursor returned %q, below the start %q of the pinned region", e.Key, *minStart)
			}
			if !allowed(e.Key) {
				outsideInPoll[e.Poll]++
			}
		}
	}
	for poll, n := range outsideInPoll {
		// One key beyond the region is what an end detection costs. A plan that
		// does not remember exhaustion detects the end once when it returns its
		// last rows and once more when it is asked again and returns nothing; a
		// plan that drains its child in a loop (DELETE, ORDER BY, LIMIT) does
		// both inside one caller poll, and every further draining node above it
		// (DELETE over LIMIT over a scan) may ask once more. Tolerated per segment:
		// two, or one per plan node if the plan is deeper; a scan that does not
		// stop at the region's end reads every remaining key of the store.
		tolerated := 2
		if planNodes > tolerated {
			tolerated = planNodes
		}
		if n > tolerated {
			return "scan-beyond-region", fmt.Sprintf("segment %d read %d keys outside the pinned region (one is needed to detect its end, one more each time a draining plan node asks again: at most %d for this plan)", poll, n, tolerated)
		}
		li := lastNextInPoll[poll]
		if allowed(evs[li].Key) {
			return "scan-beyond-region", fmt.Sprintf("segment %d read a key outside the pinned region and then kept reading inside it (last key read: %q)", poll, evs[li].Key)
		}
	}
	if mustPoint {
		if nNext > 0 {
			return "scan-for-equality", fmt.Sprintf("equality/IN clause was answered with a scan (%d cursor Next calls) instead of point reads", nNext)
		}
		if complete {
			for _, k := range surviving {
				if !gets[k] {
					return "point-read-missing", fmt.Sprintf("key %q is selected by the clause but was never Get-read", k)
				}
			}
		}
	}
	return "", ""
}

func isRangeShape(s string) bool {
	return s == "gt" || s == "gte" || s == "lt" || s == "lte" || s == "between"
}

func rangeBounds(a *PinAtom) (lo, hi *string) {
	switch a.Shape {
	case "gt", "gte":
		return &a.Lits[0], nil
	case "lt", "lte":
		return nil, &a.Lits[0]
	case "between":
		return &a.Lits[0], &a.Lits[1]
	}
	return nil, nil
}

func runC18(sc *Scenario, st *Stats) []Violation {
	pc := sc.K
	if pc == nil {
		return nil
	}
	stmts := sc.Clients[0].Stmts
	stmts[len(stmts)-1].Text = pc.Text()
	w, rs := runStmts(sc, sc.Cfg, stmts, nil)
	st.noteRun(w, rs)
	r := rs[len(rs)-1]
	if r.BuildErr != "" {
		st.Inc("rejected")
		return nil
	}
	if r.Failed() {
		st.Inc("statement_failed")
		// the invariant is prefix-closed: still judge the trace
	}
	evs := w.H.log[r.EvFrom:r.EvTo]
	shapes := make([]string, len(pc.Atoms))
	var lits []string
	for i, a := range pc.Atoms {
		shapes[i] = a.Shape
		if a.Rev {
			shapes[i] += "-rev"
		}
		lits = append(lits, a.Lits...)
	}
	op := "none"
	if pc.Opaque != "" {
		op = "after"
		if pc.OpaqueFst {
			op = "before"
		}
	}
	if len(evs) > 0 || pc.False {
		st.Seen(fmt.Sprintf("%v|%v|%s|%s|%d", shapes, lits, op, r.Mode, sc.Cfg.Batch))
	}
	st.Inc("plan:" + planShape(r.Explain))
	// whole-statement count of keys read beyond the region (recorded, not judged)
	beyond := 0
	for _, e := range evs {
		if e.Op == OpNext && !e.End && e.Err == "" {
			in := false
			for i := range pc.Atoms {
				if pc.Atoms[i].contains(e.Key) {
					in = true
				}
			}
			if !in {
				beyond++
			}
		}
	}
	if beyond > 1 {
		st.Inc("statements_reading_2+_keys_beyond_region_overall")
	}
	st.Sample(map[string]any{"statement": pc.Text(), "mode": r.Mode, "batch": sc.Cfg.Batch, "store_pairs": len(sc.Init), "plan": r.Explain, "reads": len(evs)}, 4)
	kind, detail := pinVerdict(pc, evs, r.Completed, len(r.Explain))
	if kind != "" {
		return []Violation{{Prop: "C18", Kind: kind,
			Detail: detail + " | statement: " + pc.Text() + " | plan: " + strings.Join(r.Explain, " > "),
			Sig:    fmt.Sprintf("shapes=%v opaque=%s mode=%s plan=%s", shapes, op, r.Mode, planShape(r.Explain))}}
	}
	// The invariant is prefix-closed, so it must keep holding when a storage
	// call fails: one error injected at every call position of this statement.
	var vs []Violation
	positions := []int{}
	if len(sc.Faults) > 0 {
		for _, f := range sc.Faults {
			positions = append(positions, f.Call)
		}
	} else {
		for i := range evs {
			positions = append(positions, r.EvFrom+i)
		}
		if len(positions) > 40 {
			positions = positions[:40]
		}
	}
	for _, pos := range positions {
		flt := []Fault{{Call: pos, Kind: FErr}}
		wf, rf := runStmts(sc, sc.Cfg, stmts, flt)
		st.noteRun(wf, rf)
		fr := rf[len(rf)-1]
		if len(wf.H.fired) == 0 {
			continue
		}
		fevs := wf.H.log[fr.EvFrom:fr.EvTo]
		fop := wf.H.log[pos].Op
		st.Inc("faulted_traces_monitored")
		if k, d := pinVerdict(pc, fevs, false, len(r.Explain)); k != "" {
			v := Violation{Prop: "C18", Kind: k,
				Detail: fmt.Sprintf("after an injected error on %s (call #%d): %s | statement: %s | plan: %s", fop, pos, d, pc.Text(), strings.Join(r.Explain, " > ")),
				Sig:    fmt.Sprintf("shapes=%v opaque=%s mode=%s plan=%s fault-on=%s", shapes, op, r.Mode, planShape(r.Explain), fop)}
			if len(sc.Faults) == 0 {
				c := *sc // shared, not copied: nothing mutates a scenario
				c.Faults = flt
				v.Pinned = &c
			}
			vs = append(vs, v)
			break
		}
	}
	return vs
}
