package main

import (
	"fmt"
)

// C12 — PUT and REMOVE apply exactly the stated writes, once, all-or-nothing.
// Histories of put/remove/probe statements against a model map; arbitrary
// poll patterns after completion; failing evaluations; and (separate
// sub-check) every fault kind on every write call.

func init() {
	register(&Prop{
		ID:    "C12",
		Level: "exploration",
		Rule:  "case = a history of 1..12 put/remove/probe statements (expressions built from their intended values; duplicate keys, `key` in value expressions, some expressions failing at evaluation time) with a poll pattern of 0..6 extra Next/Batch polls after each statement, executed against a simulated store and a model map; then, separately, the same history re-executed once per (write call, fault kind) with that call faulted. distinct_nontrivial counts distinct (statement kind, pair count, has-duplicate, uses-key, failing-position, poll pattern, drain mode) tuples among statements that reached storage or failed at evaluation. A rare big family issues PUTs of 1100..66000 pairs (one key up to thousands of times; an expression failing at evaluation time far into the list; 70 KiB..6 MiB of payload; keys and values of up to 70000 bytes) followed by REMOVEs of the same order, probes in between.",
		Assumptions: []string{
			"storage contract of DESIGN.md §3.3; writes apply atomically in argument order",
			"the harness's intended values are correct by construction for the restricted expression forms used (literal, integer arithmetic, concatenation, upper/lower ASCII, str, key)",
			"polls after a poll that returned an error are not examined",
			"the split of writes into Put/BatchPut calls is not asserted",
		},
		Real: "real: all of kvql from /repo's working tree; simulated: storage engine (SimStorage), caller (poll driver), reference model (Go map)",
		NCases: func(tier string) int {
			if tier == "thorough" {
				return 8000000
			}
			return 60000
		},
		Gen:        genC12,
		Run:        runC12,
		ShrinkLazy: shrinkHistLazy,
	})
}

func genC12(seed uint64, i int, tier string) *Scenario {
	r := NewRng(seed)
	if i%2003 == 23 {
		return genC12Big(r)
	}
	sc := &Scenario{Cfg: Config{Batch: pickBatch(r), Cache: r.Bool(), Alias: r.Chance(0.4), Lazy: r.Chance(0.3)}}
	// initial store: sometimes empty, sometimes a few pool keys
	sc.Init = []KV{}
	if r.Chance(0.5) {
		n := r.Range(1, 6)
		seen := map[string]bool{}
		for j := 0; j < n; j++ {
			k := pick(r, histKeyPool)
			if !seen[k] {
				seen[k] = true
				sc.Init = append(sc.Init, KV{k, pick(r, histValPool)})
			}
		}
	}
	model := modelFromInit(sc.Init)
	n := pick(r, []int{1, 2, 3, 4, 6, 9, 12})
	for len(sc.Hist) < n {
		var h HistStmt
		switch r.Intn(10) {
		case 0, 1, 2, 3, 4:
			h = genPutStmt(r, true)
		case 5, 6, 7:
			h = genRemoveStmt(r, model, true)
		default:
			h = HistStmt{Kind: "probe", Key: pick(r, histKeyPool), Mode: genMode(r)}
		}
		sc.Hist = append(sc.Hist, h)
		if !h.ExpectFail() {
			applyHist(model, &h)
		}
		// follow a write with probes of what it touched
		if (h.Kind == "put" || h.Kind == "remove") && r.Chance(0.5) && len(h.Pairs) > 0 {
			p := pick(r, h.Pairs)
			sc.Hist = append(sc.Hist, HistStmt{Kind: "probe", Key: p.K, Mode: genMode(r)})
		}
	}
	sc.Clients = []Client{{Stmts: histStmts(sc.Hist)}}
	return sc
}

func histStmts(hs []HistStmt) []Stmt {
	out := make([]Stmt, len(hs))
	for i := range hs {
		out[i] = hs[i].Stmt()
	}
	return out
}

func c12sig(h *HistStmt) string {
	dup, usesKey, fail := false, false, ""
	seen := map[string]bool{}
	for i, p := range h.Pairs {
		if seen[p.K] {
			dup = true
		}
		seen[p.K] = true
		if len(p.VT) >= 3 && (containsWord(p.VT, "key")) {
			usesKey = true
		}
		if p.Fail != "" {
			pos := "mid"
			if i == 0 {
				pos = "first"
			} else if i == len(h.Pairs)-1 {
				pos = "last"
			}
			fail = p.Fail + "@" + pos
		}
	}
	return fmt.Sprintf("%s n=%d dup=%v key=%v fail=%s mode=%s extra=%v", h.Kind, len(h.Pairs), dup, usesKey, fail, h.Mode, h.Extra)
}

func containsWord(s, w string) bool {
	for i := 0; i+len(w) <= len(s); i++ {
		if s[i:i+len(w)] == w {
			before := i == 0 || !isIdent(s[i-1])
			after := i+len(w) == len(s) || !isIdent(s[i+len(w)])
			if before && after {
				return true
			}
		}
	}
	return false
}

func isIdent(c byte) bool {
	return c == '_' || c == '\'' || (c >= 'a' && c <= 'z') || (c >= 'A' && c <= 'Z') || (c >= '0' && c <= '9')
}

// writeCallsOf lists the mutating events of statement si.
func writeCallsOf(log []Event, si int) []Event {
	var out []Event
	for _, e := range log {
		if e.Stmt == si && isMutating(e.Op) {
			out = append(out, e)
		}
	}
	return out
}

// checkPutRemoveStmt judges one fault-free put/remove statement. prior is the
// model before it; the model is advanced in place when the statement took effect.
func checkPutRemoveStmt(prop string, w *World, si int, h *HistStmt, r *StmtRes, model map[string]string, st *Stats) (vs []Violation, stop bool) {
	text := h.Render()
	sig := fmt.Sprintf("stmt=%s mode=%s plan=%s", h.Kind, h.Mode, planShape(r.Explain))
	add := func(kind, detail string) {
		vs = append(vs, Violation{Prop: prop, Kind: kind, Detail: detail + " | statement #" + fmt.Sprint(si) + ": " + text, Sig: sig + " n=" + fmt.Sprint(len(h.Pairs))})
	}
	writes := writeCallsOf(w.H.log, si)
	dump, corrupt := w.Core.Dump()
	if corrupt > 0 {
		add("engine-bytes-modified", fmt.Sprintf("%d stored pair(s) were modified in place through slices owned by the storage engine", corrupt))
		return vs, true
	}
	if r.BuildErr != "" {
		// the statement was rejected statically; nothing of C12 to judge, but the model no longer applies
		st.Inc("rejected")
		if !kvsEqual(dump, modelDump(model)) {
			add("rejected-changed-store", "statement was rejected at plan time but the store changed: "+diffKVs(dump, modelDump(model)))
		}
		return vs, true
	}
	if r.StepCap {
		// The plan never reported end-of-stream. That alone is not C12's business;
		// what is: whether the stated writes were issued more than once meanwhile.
		st.Inc("did_not_complete")
		want := len(h.Pairs)
		nw := 0
		for _, e := range writes {
			switch e.Op {
			case OpPut, OpDel:
				nw++
			default:
				nw += len(e.Keys)
			}
		}
		if nw > want {
			add("writes-repeated", fmt.Sprintf("the plan was polled %d times without reporting end-of-stream and issued %d key writes for a statement that states %d: the writes are not issued exactly once", len(r.Polls), nw, want))
		}
		return vs, true
	}
	if r.Panic != "" {
		st.Inc("did_not_complete")
		return vs, true
	}
	if r.Err != "" {
		// evaluation failed (no fault is injected in this pass): all-or-nothing
		st.Inc("evaluation_failures")
		if len(writes) > 0 {
			add("write-despite-eval-failure", fmt.Sprintf("statement failed with %q yet issued %d write call(s), first: %s %s%v", oneLine(r.Err, 60), len(writes), writes[0].Op, writes[0].Key, writes[0].Keys))
		}
		if !kvsEqual(dump, modelDump(model)) {
			add("store-changed-despite-eval-failure", "statement failed but the store changed: "+diffKVs(dump, modelDump(model)))
		}
		if !h.ExpectFail() {
			st.Inc("unexpected_evaluation_failure")
		}
		return vs, !h.ExpectFail()
	}
	if h.ExpectFail() {
		// one of the stated expressions divides an integer by zero, yet the
		// statement reported success: the failing pair was not evaluated (or its
		// failure was ignored), and writes were issued
		add("eval-failure-ignored", fmt.Sprintf("a stated key/value expression cannot be evaluated (integer division by zero) but the statement succeeded and issued %d write call(s)", len(writes)))
		return vs, true
	}
	// effect: prior state overwritten in order by the evaluated pairs
	applyHist(model, h)
	want := modelDump(model)
	if !kvsEqual(dump, want) {
		add("store-differs", "store after the statement differs from prior state overwritten by the stated pairs: "+diffKVs(dump, want))
	}
	// exactly once: no invented write, no repeated write, nothing in later polls
	type kvk struct{ k, v string }
	allowedPut := map[kvk]int{}
	allowedDel := map[string]int{}
	for _, p := range h.Pairs {
		if h.Kind == "put" {
			allowedPut[kvk{p.K, p.V}]++
		} else {
			allowedDel[p.K]++
		}
	}
	for _, e := range writes {
		if e.Poll >= r.NDrain {
			add("write-on-later-poll", fmt.Sprintf("poll #%d after completion issued %s", e.Poll, e.Op))
			continue
		}
		switch e.Op {
		case OpPut:
			k := kvk{e.Key, e.Vals[0]}
			allowedPut[k]--
			if allowedPut[k] < 0 {
				add("unstated-write", fmt.Sprintf("wrote (%q,%q) which is not (or no longer) among the stated pairs", e.Key, e.Vals[0]))
			}
		case OpBPut:
			for i := range e.Keys {
				k := kvk{e.Keys[i], e.Vals[i]}
				allowedPut[k]--
				if allowedPut[k] < 0 {
					add("unstated-write", fmt.Sprintf("wrote (%q,%q) which is not (or no longer) among the stated pairs", e.Keys[i], e.Vals[i]))
				}
			}
		case OpDel:
			allowedDel[e.Key]--
			if allowedDel[e.Key] < 0 {
				add("unstated-delete", fmt.Sprintf("deleted %q which is not (or no longer) among the stated keys", e.Key))
			}
		case OpBDel:
			for _, k := range e.Keys {
				allowedDel[k]--
				if allowedDel[k] < 0 {
					add("unstated-delete", fmt.Sprintf("deleted %q which is not (or no longer) among the stated keys", k))
				}
			}
		}
	}
	for pi := r.NDrain; pi < len(r.Polls); pi++ {
		if r.Polls[pi].NRows > 0 {
			st.Inc("later_poll_returned_rows")
		}
		if r.Polls[pi].Calls > 0 {
			st.Inc("later_poll_storage_calls")
		}
	}
	return vs, false
}

func checkProbe(prop string, si int, h *HistStmt, r *StmtRes, model map[string]string) []Violation {
	if r.Failed() {
		return []Violation{{Prop: prop, Kind: "probe-failed", Detail: fmt.Sprintf("statement #%d %s failed: %s%s%s", si, h.Render(), r.BuildErr, r.Err, r.Panic), Sig: "probe " + r.Outcome()}}
	}
	v, ok := model[h.Key]
	var want [][]string
	if ok {
		want = [][]string{{canon(h.Key), canon(v)}}
	}
	if !rowsEqual(r.Rows, want) {
		return []Violation{{Prop: prop, Kind: "probe-mismatch",
			Detail: fmt.Sprintf("statement #%d %s returned %v, the model holds %v (present=%v)", si, h.Render(), r.Rows, want, ok),
			Sig:    fmt.Sprintf("probe mode=%s present=%v", h.Mode, ok)}}
	}
	return nil
}

func runC12(sc *Scenario, st *Stats) []Violation {
	var vs []Violation
	setKnobs(sc.Cfg)
	w := NewWorld(sc.Init, sc.Cfg, nil, fmt.Sprintf("%x", sc.Seed&0xffffff))
	model := modelFromInit(sc.Init)
	var rs []StmtRes
	judged := 0
	for si := range sc.Hist {
		h := &sc.Hist[si]
		r := execStmt(w.H, si, h.Stmt(), sc.Cfg)
		rs = append(rs, r)
		judged++
		if h.Kind == "probe" {
			vs = append(vs, checkProbe("C12", si, h, &r, model)...)
			continue
		}
		pv, stop := checkPutRemoveStmt("C12", w, si, h, &r, model, st)
		vs = append(vs, pv...)
		if len(w.H.log) > r.EvFrom || r.Err != "" {
			st.Seen(c12sig(h))
		}
		st.Inc("stmts:" + h.Kind)
		if stop {
			break
		}
	}
	st.noteRun(w, rs)
	st.Sample(map[string]any{"history": textsOf(sc.Hist), "batch": sc.Cfg.Batch}, 3)
	if len(vs) > 0 {
		return vs
	}

	// --- fault sub-check: every write call x every kind ----------------------
	baseLog := w.H.log
	nw, wi := 0, -1
	for _, e := range baseLog {
		if isMutating(e.Op) && e.Stmt < judged {
			nw++
		}
	}
	for _, e := range baseLog {
		if !isMutating(e.Op) || e.Stmt >= judged {
			continue
		}
		wi++
		if nw > 150 && len(sc.Faults) == 0 && !(wi < 8 || wi >= nw-8 || wi%(nw/25+1) == 0) {
			continue // thousands of write calls (only a library that splits its writes issues them): both ends and about 25 evenly spaced
		}
		if len(vs) >= 12 {
			break // one case, one cause
		}
		kinds := []Fault{{Call: e.Seq, Kind: FErr}, {Call: e.Seq, Kind: FApplied}}
		if e.Op == OpBPut || e.Op == OpBDel {
			n := len(e.Keys)
			if n <= 12 {
				for p := 0; p <= n; p++ {
					kinds = append(kinds, Fault{Call: e.Seq, Kind: FPartial, Part: p})
				}
			} else {
				// long batches: the ends, the middle and the thresholds a chunked writer might use
				for _, p := range []int{0, 1, n / 2, n - 1, n, 32, 64, 256, 1024} {
					if p <= n {
						kinds = append(kinds, Fault{Call: e.Seq, Kind: FPartial, Part: p})
					}
				}
			}
		}
		if len(sc.Faults) > 0 {
			kinds = nil
			for _, f := range sc.Faults {
				if f.Call == e.Seq {
					kinds = append(kinds, f)
				}
			}
		}
		for _, f := range kinds {
			fv := runC12Fault(sc, f, e, st)
			for i := range fv {
				if len(sc.Faults) == 0 {
					c := *sc // statements and store are shared, not copied: nothing mutates them
					c.Faults = []Fault{f}
					fv[i].Pinned = &c
				}
			}
			vs = append(vs, fv...)
		}
	}
	return vs
}

func textsOf(hs []HistStmt) []string {
	out := make([]string, len(hs))
	for i := range hs {
		out[i] = hs[i].Render()
		if len(hs[i].Extra) > 0 {
			out[i] += fmt.Sprintf("   -- then polls %v", hs[i].Extra)
		}
	}
	return out
}

// runC12Fault re-executes the history with one write call faulted and checks
// the narrowed oracle: the error surfaces, the store is the prior state plus
// exactly what the engine applied, and nothing else is written.
func runC12Fault(sc *Scenario, f Fault, base Event, st *Stats) []Violation {
	var vs []Violation
	setKnobs(sc.Cfg)
	w := NewWorld(sc.Init, sc.Cfg, []Fault{f}, fmt.Sprintf("%x", sc.Seed&0xffffff))
	model := modelFromInit(sc.Init)
	var rs []StmtRes
	for si := 0; si <= base.Stmt && si < len(sc.Hist); si++ {
		h := &sc.Hist[si]
		hs := h.Stmt()
		if si == base.Stmt {
			hs.PollAfterErr = true
			if len(hs.Extra) < 2 {
				hs.Extra = append(append([]string{}, hs.Extra...), "next", "batch")
			}
		}
		r := execStmt(w.H, si, hs, sc.Cfg)
		rs = append(rs, r)
		if si < base.Stmt {
			if r.Err == "" && r.BuildErr == "" && !h.ExpectFail() {
				applyHist(model, h)
			}
			continue
		}
		// the faulted statement
		sig := fmt.Sprintf("stmt=%s mode=%s op=%s fault=%s", h.Kind, h.Mode, base.Op, f.Kind)
		add := func(kind, detail string) {
			vs = append(vs, Violation{Prop: "C12", Kind: kind, Detail: fmt.Sprintf("fault %s(part=%d) on %s call #%d: %s | statement #%d: %s", f.Kind, f.Part, base.Op, f.Call, detail, si, h.Render()), Sig: sig})
		}
		if len(w.H.fired) == 0 {
			st.Inc("fault_not_reached")
			break
		}
		st.Seen("fault|" + sig)
		// what the engine applied, by the simulator's own definition
		applied := 0
		switch f.Kind {
		case FApplied:
			applied = len(base.Keys)
			if base.Op == OpPut || base.Op == OpDel {
				applied = 1
			}
		case FPartial:
			applied = f.Part
		}
		ev := w.H.log[f.Call]
		// write calls of the same statement that succeeded before the faulted one
		// took effect as well (the split of a statement's writes into calls is the
		// library's business; all-or-nothing is promised for evaluation failures,
		// not for storage failures)
		for _, pe := range w.H.log[r.EvFrom:f.Call] {
			if pe.Err != "" {
				continue
			}
			switch pe.Op {
			case OpPut:
				model[pe.Key] = pe.Vals[0]
			case OpDel:
				delete(model, pe.Key)
			case OpBPut:
				for i := range pe.Keys {
					model[pe.Keys[i]] = pe.Vals[i]
				}
			case OpBDel:
				for i := range pe.Keys {
					delete(model, pe.Keys[i])
				}
			}
		}
		for i := 0; i < applied; i++ {
			switch ev.Op {
			case OpPut:
				model[ev.Key] = ev.Vals[0]
			case OpDel:
				delete(model, ev.Key)
			case OpBPut:
				if i < len(ev.Keys) {
					model[ev.Keys[i]] = ev.Vals[i]
				}
			case OpBDel:
				if i < len(ev.Keys) {
					delete(model, ev.Keys[i])
				}
			}
		}
		if r.Err == "" && r.Panic == "" {
			add("fault-swallowed", "the write call failed but the statement reported success")
		} else if r.Panic != "" {
			add("fault-panic", "the statement panicked: "+r.Panic)
		} else if !isFaultErr(r.ErrObj, ev.Err) {
			add("fault-error-replaced", fmt.Sprintf("the caller received %q instead of the storage error %s", oneLine(r.Err, 80), ev.Err))
		}
		for _, nx := range w.H.log[f.Call+1:] {
			if isMutating(nx.Op) {
				if nx.Poll == ev.Poll {
					add("write-after-failed-write", fmt.Sprintf("after the failed write the statement issued %s %s%v", nx.Op, nx.Key, nx.Keys))
				} else {
					add("write-reissued-on-later-poll", fmt.Sprintf("the write failed in poll %d; polling the plan again (poll %d) issued %s %s%v: the writes are not issued exactly once", ev.Poll, nx.Poll, nx.Op, nx.Key, nx.Keys))
				}
				break
			}
		}
		dump, _ := w.Core.Dump()
		if !kvsEqual(dump, modelDump(model)) {
			add("fault-state-diverged", "store is not the prior state plus what the engine applied: "+diffKVs(dump, modelDump(model)))
		}
	}
	st.noteRun(w, rs)
	return vs
}

// shrinkHist: drop statements, drop pairs inside statements, drop extra polls,
// drop initial pairs, simplify config.
func shrinkHist(sc *Scenario) []*Scenario {
	var out []*Scenario
	shrinkHistLazy(sc, func(c *Scenario) bool {
		out = append(out, c)
		return len(out) >= 400 // an eager caller gets a bounded list
	})
	return out
}

// shrinkHistLazy proposes one candidate at a time. Candidates share what they
// do not change with sc (a statement of 66000 pairs is never copied per
// candidate), pairs are dropped in halves, quarters, ... and singly only once
// a statement is short.
func shrinkHistLazy(sc *Scenario, try func(*Scenario) bool) {
	mk := func(hist []HistStmt, keepFaults bool) *Scenario {
		c := *sc
		c.Hist = hist
		if !keepFaults {
			c.Faults = nil
		}
		c.Clients = []Client{{Stmts: histStmts(hist)}}
		return &c
	}
	with := func(i int, h HistStmt) []HistStmt {
		hist := append([]HistStmt{}, sc.Hist...)
		hist[i] = h
		return hist
	}
	for i := range sc.Hist {
		if try(mk(append(append([]HistStmt{}, sc.Hist[:i]...), sc.Hist[i+1:]...), false)) {
			return
		}
	}
	for i := range sc.Hist {
		ps := sc.Hist[i].Pairs
		n := len(ps)
		proposed := 0
		for chunk := n / 2; chunk >= 1 && n > 1; chunk /= 2 {
			for from := 0; from < n; from += chunk {
				to := from + chunk
				if to > n {
					to = n
				}
				h := sc.Hist[i]
				h.Pairs = append(append(make([]HistPair, 0, n-(to-from)), ps[:from]...), ps[to:]...)
				proposed++
				if try(mk(with(i, h), false)) {
					return
				}
			}
			if chunk == 1 || proposed > 130 {
				break
			}
		}
		for j := range sc.Hist[i].Extra {
			h := sc.Hist[i]
			h.Extra = append(append([]string{}, h.Extra[:j]...), h.Extra[j+1:]...)
			if try(mk(with(i, h), true)) {
				return
			}
		}
		// replace expression texts by plain literals
		replaced := 0
		for j, p := range ps {
			if replaced >= 60 {
				break
			}
			if p.Fail == "" && (p.KT != quote(p.K) || (sc.Hist[i].Kind == "put" && p.VT != quote(p.V))) {
				h := sc.Hist[i]
				h.Pairs = append([]HistPair{}, ps...)
				h.Pairs[j].KT = quote(p.K)
				if h.Kind == "put" {
					h.Pairs[j].VT = quote(p.V)
				}
				replaced++
				if try(mk(with(i, h), true)) {
					return
				}
			}
		}
	}
	for _, c := range shrinkInit(sc) {
		if try(c) {
			return
		}
	}
	for _, c := range shrinkConfig(sc) {
		if try(c) {
			return
		}
	}
}
