package main

import (
	"fmt"
	"strconv"
	"strings"
)

// C05 — aliases are pure abbreviations and the field cache is invisible.
// Relational sub-checks over every cell of {cache on, off} x {row, batch}:
// cache invisibility, alias expansion, and row shape / per-row definition.

func init() {
	register(&Prop{
		ID:    "C05",
		Level: "exploration",
		Rule:  "case = (accepted query with 1..3 aliased select fields used in WHERE operands, function arguments, other fields, ORDER BY, GROUP BY; generated store in which some rows fail the filter; batch size). Each case is executed in the four cells {cache on, cache off} x {row, batch} for the query Q and for Q' (every alias use replaced by its parenthesised definition, by the harness): (1) cache on == cache off in each mode; (2) Q == Q' in each cell; (3) every row has one column per announced field and, with key as field 0, each column equals the single value of `select <definition> where key = '<that key>'` run row mode, cache off. Equal = both complete with content-equal rows (multiset inside ORDER BY tie runs) or both fail. distinct_nontrivial counts distinct (plan-node chain, batch size, alias-use signature, rows-rejected-between-returned flag) among accepted queries that returned at least one row in the reference cell. A rare big family uses stores of 3000..140000 pairs with one distinct value per row, batch sizes 1..4097, and aliases skipped by short-circuit for exactly 2^k(+-1) rows (k = 8, 10, 12, 16), referenced twice deep into the store, or prefix-filtered.",
		Assumptions: []string{
			"only accepted queries count; alias definitions reference only earlier aliases",
			"error texts are not compared (aliased and expanded forms legitimately report different positions)",
			"reference cell: row mode, cache off",
			"float columns are compared to 11 significant digits: the expression optimizer re-associates constant factors only where it sees literals, so the aliased/expanded (and cached/recomputed) forms may differ in the last bits",
			"a bare alias used as a select field of its own is not generated (not among the uses the property lists)",
		},
		Real: "real: all of kvql from /repo's working tree; simulated: storage engine, caller",
		NCases: func(tier string) int {
			if tier == "thorough" {
				return 15000000
			}
			return 120000
		},
		Gen:    genC05,
		Run:    runC05,
		Shrink: shrinkC05,
		Finish: func(st *Stats, cov map[string]any, tier string) string {
			probes := map[string]int{}
			for _, p := range []string{"probe:rejected_row_between_returned_rows", "probe:alias_referenced_twice", "probe:cache_hits>0", "probe:mget_path_with_alias_filter", "probe:alias_inside_rowwise_wrapper", "probe:alias_in_order_by", "probe:alias_in_group_by", "probe:polled_on_after_an_error"} {
				probes[p] = st.Counters[p]
			}
			cov["probes"] = probes
			if tier == "thorough" {
				for p, n := range probes {
					if n == 0 {
						return "probe " + p + " was never hit: the workload does not reach the case it is meant to"
					}
				}
			}
			return ""
		},
	})
}

func genC05(seed uint64, i int, tier string) *Scenario {
	r := NewRng(seed)
	if i%2003 == 17 {
		return genC05Big(r)
	}
	if i%8 == 7 {
		return genC05KeepGoing(r)
	}
	style := pick(r, []string{StoreMixed, StoreInts, StoreNum, StoreText, StoreInts, StoreCollide, StoreUnicode, StoreBytes})
	g := newGen(r, style)
	// alias use is the point of this property
	g.safeDiv = true // which rows are evaluated legitimately differs between Q and Q' (scan narrowing); keep evaluation total
	g.feat["json"] = false
	g.feat["alias-where"] = true
	g.feat["alias-arg"] = true
	if r.Chance(0.7) {
		g.feat["alias-chain"] = true
	}
	b := pickBatch(r)
	sc := &Scenario{Cfg: Config{Batch: b, Alias: r.Chance(0.3), Lazy: r.Chance(0.3)}}
	sc.Init = genStoreFor(r, b, style)
	if r.Chance(0.12) {
		// a bare literal key set as the whole WHERE clause (the aliases are then used in
		// other fields, ORDER BY or GROUP BY only), or with one alias atom conjoined
		g.keyListWhere = r.Range(1, 2)
		g.feat["alias-chain"] = true
		if style == StoreCollide || style == StoreUnicode || style == StoreBytes {
			sc.Init = genStoreFor(r, b, StoreMixed) // a store that holds the numbered keys
		}
	}
	q := g.Select(true)
	if !q.Star && len(q.Group) == 0 && r.Chance(0.7) {
		if len(q.Fields) == 0 || q.Fields[0].E.Kind != "key" {
			q.Fields = append([]GField{{E: &GExpr{Kind: "key", T: TS}}}, q.Fields...)
			for k := range q.Order {
				q.Order[k].Field++
			}
		}
	}
	sc.Q = q
	sc.Clients = []Client{{Stmts: []Stmt{{Text: q.Render(false)}}}}
	return sc
}

// genC05Big: stores of thousands to more than a hundred thousand pairs with
// one distinct value per row, batch sizes from 1 to beyond 4096, and aliases
// that are (a) skipped by short-circuit for exactly g rows between two
// evaluations, g around the powers of two at which 8-, 10-, 12- and 16-bit
// counters wrap, (b) referenced twice in a WHERE that first accepts deep into
// the store, (c) selected and filtered by prefix. Anything the engine keeps per
// row, per chunk or per statement beyond a size threshold is only exercised
// here. Field 0 is `key`, so all three sub-checks apply.
func genC05Big(r *Rng) *Scenario {
	n := pick(r, []int{3000, 5000, 20000, 70000, 140000})
	init := make([]KV, n)
	for j := range init {
		init[j] = KV{fmt.Sprintf("k%07d", j), fmt.Sprintf("V%07d", j)}
	}
	val := &GExpr{Kind: "value", T: TS}
	key := &GExpr{Kind: "key", T: TS}
	u := &GExpr{Kind: "alias", T: TS, S: "u"}
	def := pick(r, []*GExpr{call(TS, "lower", val), bin(TS, "+", val, lit("-x")), call(TS, "lower", bin(TS, "+", val, key))})
	img := func(j int) string { // the alias value of row j, for definitions 0 and 1 as far as the prefix goes
		return fmt.Sprintf("v%07d", j)
	}
	if def.Kind == "bin" {
		img = func(j int) string { return fmt.Sprintf("V%07d", j) }
	}
	q := &GSelect{Fields: []GField{{E: key}, {E: def, Alias: "u"}}}
	form := r.Intn(4)
	switch form {
	case 0, 1:
		gaps := []int{255, 256, 257, 1023, 1024, 1025, 4095, 4096, 4097}
		if n >= 70000 && r.Chance(0.7) {
			gaps = []int{65535, 65536, 65537}
		}
		g := pick(r, gaps)
		s0 := r.Intn(40)
		var alt *GExpr
		for k := 0; k < 3 && s0+k*g < n; k++ {
			e := bin(TB, "=", val, lit(fmt.Sprintf("V%07d", s0+k*g)))
			if alt == nil {
				alt = e
			} else {
				alt = bin(TB, "|", alt, e)
			}
		}
		q.Where = bin(TB, "&", alt, bin(TB, "!=", u, lit("zz")))
	case 2:
		p := n/2 + r.Intn(n/2-20)
		q.Where = bin(TB, "&", bin(TB, ">", u, lit(img(p))), bin(TB, "<", u, lit(img(p+r.Range(2, 12)))))
	default:
		p := r.Intn(n)
		q.Where = bin(TB, "^=", u, lit(img(p)[:len(img(p))-r.Range(1, 2)]))
	}
	sc := &Scenario{Family: "big", Cfg: Config{Batch: pick(r, []int{1, 4, 32, 1025, 1500, 4097}), Lazy: r.Bool()}, Init: init, Q: q}
	sc.Clients = []Client{{Stmts: []Stmt{{Text: q.Render(false)}}}}
	return sc
}

// genC05KeepGoing: queries whose evaluation fails on some rows (division by a
// row-dependent zero), drained by a caller that polls on after an error. Only
// the cache-invisibility sub-check applies (same query, same plan, both sides).
func genC05KeepGoing(r *Rng) *Scenario {
	style := pick(r, []string{StoreInts, StoreNum, StoreMixed})
	g := newGen(r, style)
	g.feat["alias-where"] = true
	g.feat["alias-arg"] = true
	g.feat["arith-int"] = true
	g.feat["convfuncs"] = true
	g.feat["json"] = false
	g.feat["group"] = false
	g.feat["order"] = false
	b := pickBatch(r)
	sc := &Scenario{Family: "keep-going", Cfg: Config{Batch: b, Alias: r.Chance(0.3), Lazy: r.Chance(0.3)}}
	sc.Init = genStoreFor(r, b, style)
	q := g.Select(true)
	// conjoin an atom that fails on the rows whose value is the chosen integer
	z := pick(r, []string{"0", "1", "2", "3", "5"})
	div := bin(TN, "/", ilit(12), bin(TN, "-", call(TN, "int", &GExpr{Kind: "value", T: TS}), ilit(atoiOr(z, 0))))
	var ref *GExpr = div
	if len(g.aliases) > 0 && r.Bool() {
		for _, a := range g.aliases {
			if a.t == TN {
				ref = bin(TN, "+", div, &GExpr{Kind: "alias", T: TN, S: a.name, NK: a.nk})
				break
			}
		}
	}
	q.Where = bin(TB, pick(r, []string{"&", "and"}), q.Where, bin(TB, "<", ref, ilit(1000)))
	q.HasLimit = false
	sc.Q = q
	sc.Clients = []Client{{Stmts: []Stmt{{Text: q.Render(false), KeepGoing: 6}}}}
	return sc
}

func atoiOr(s string, d int) int {
	n := 0
	for i := 0; i < len(s); i++ {
		if s[i] < '0' || s[i] > '9' {
			return d
		}
		n = n*10 + int(s[i]-'0')
	}
	return n
}

type c05cell struct {
	mode  string
	cache bool
}

func (c c05cell) String() string {
	return fmt.Sprintf("%s/cache=%v", c.mode, c.cache)
}

var c05cells = []c05cell{{ModeRow, false}, {ModeRow, true}, {ModeBatch, false}, {ModeBatch, true}}

// looseFloats re-renders float columns with 11 significant digits. The aliased
// and the expanded query (and the cached and the recomputed value of an alias)
// may legitimately differ in the last bits of a float: the expression
// optimizer re-associates constant factors — (x * c) * c becomes x * (c * c) —
// only where it sees literals, and an alias hides them. That is float
// arithmetic, not a property of aliases or of the cache.
func looseFloats(rows [][]string) [][]string {
	out := make([][]string, len(rows))
	for i, r := range rows {
		nr := make([]string, len(r))
		for j, c := range r {
			nr[j] = looseFloat(c)
		}
		out[i] = nr
	}
	return out
}

func looseFloat(c string) string {
	if !strings.Contains(c, "f:") {
		return c
	}
	if strings.HasPrefix(c, "f:") {
		if f, err := strconv.ParseFloat(c[2:], 64); err == nil {
			return "f:" + strconv.FormatFloat(f, 'g', 11, 64)
		}
		return c
	}
	// floats nested in lists / JSON: rewrite every f:<number> token
	var sb strings.Builder
	for i := 0; i < len(c); {
		if strings.HasPrefix(c[i:], "f:") && (i == 0 || c[i-1] == '[' || c[i-1] == ',' || c[i-1] == ':') {
			j := i + 2
			for j < len(c) && (c[j] == '-' || c[j] == '+' || c[j] == '.' || c[j] == 'e' || c[j] == 'E' || (c[j] >= '0' && c[j] <= '9')) {
				j++
			}
			if f, err := strconv.ParseFloat(c[i+2:j], 64); err == nil && j > i+2 {
				sb.WriteString("f:" + strconv.FormatFloat(f, 'g', 11, 64))
				i = j
				continue
			}
		}
		sb.WriteByte(c[i])
		i++
	}
	return sb.String()
}

func sameResult(a, b *StmtRes, orderCols []int) (bool, string) {
	af, bf := a.Failed(), b.Failed()
	if af && bf {
		return true, ""
	}
	if af != bf {
		x, y := a, b
		return false, fmt.Sprintf("one completes (%d/%d rows) and the other fails: %s%s%s | %s%s%s", len(x.Rows), len(y.Rows), x.BuildErr, oneLine(x.Err, 100), x.Panic, y.BuildErr, oneLine(y.Err, 100), y.Panic)
	}
	return equalModuloTies(looseFloats(a.Rows), looseFloats(b.Rows), orderCols)
}

func failSite(r *StmtRes) string {
	switch {
	case r.Panic != "":
		return "panic=" + panicSite(r.Panic)
	case r.Err != "":
		return "err=" + blankErr(r.Err)
	case r.BuildErr != "":
		return "builderr=" + blankErr(r.BuildErr)
	case r.StepCap:
		return "stepcap"
	}
	return "ok"
}

func runC05(sc *Scenario, st *Stats) []Violation {
	q := sc.Q
	if q == nil {
		return nil
	}
	text := q.Render(false)
	textX := q.Render(true)
	oc := orderColsOf(q)
	keepGoing := 0
	if len(sc.Clients) > 0 && len(sc.Clients[0].Stmts) > 0 {
		keepGoing = sc.Clients[0].Stmts[0].KeepGoing
	}
	res := map[c05cell]*StmtRes{}
	resX := map[c05cell]*StmtRes{}
	var refWorld *World
	for _, c := range c05cells {
		cfg := sc.Cfg
		cfg.Cache = c.cache
		w, rs := runStmts(sc, cfg, []Stmt{{Text: text, Mode: c.mode, KeepGoing: keepGoing}}, nil)
		st.noteRun(w, rs)
		r := rs[0]
		res[c] = &r
		if c == c05cells[0] {
			refWorld = w
			if r.BuildErr != "" {
				st.Inc("rejected")
				return nil
			}
		}
		if r.CacheHits > 0 {
			st.Inc("probe:cache_hits>0")
		}
	}
	st.Inc("accepted")
	ref := res[c05cells[0]]
	shape := planShape(ref.Explain)
	aliasSig := c05AliasSig(q, st)
	rejectedBetween := rejectedBetweenReturned(refWorld, ref)
	if rejectedBetween {
		st.Inc("probe:rejected_row_between_returned_rows")
	}
	if strings.Contains(shape, "MultiGetPlan") && q.Where.usesAlias() {
		st.Inc("probe:mget_path_with_alias_filter")
	}
	if len(ref.Rows) > 0 {
		st.Seen(fmt.Sprintf("%s|B=%d|%s|%v", shape, sc.Cfg.Batch, aliasSig, rejectedBetween))
		st.Sample(map[string]any{"query": text, "expanded": textX, "batch": sc.Cfg.Batch, "store_pairs": len(sc.Init), "rows_in_reference_cell": len(ref.Rows)}, 3)
	}
	mk := func(kind, detail, sig string) Violation {
		return Violation{Prop: "C05", Kind: kind,
			Detail: fmt.Sprintf("%s | batch size %d, %d pairs | query: %s", detail, sc.Cfg.Batch, len(sc.Init), text),
			Sig:    fmt.Sprintf("plan=%s %s", shape, sig)}
	}
	var vs []Violation
	// (1) cache invisibility, per mode
	for _, mode := range []string{ModeRow, ModeBatch} {
		off, on := res[c05cell{mode, false}], res[c05cell{mode, true}]
		if ok, why := sameResult(off, on, oc); !ok {
			vs = append(vs, mk("cache-differs", fmt.Sprintf("%s mode: result with the field cache off differs from the result with it on (off vs on): %s", mode, why),
				fmt.Sprintf("mode=%s off:%s on:%s", mode, failSite(off), failSite(on))))
		}
	}
	if len(vs) > 0 {
		return vs
	}
	if keepGoing > 0 {
		st.Inc("keep_going_cases")
		for _, row := range ref.Rows {
			if len(row) == 1 && row[0] == "!error" {
				st.Inc("probe:polled_on_after_an_error")
				break
			}
		}
		return nil
	}
	// (2) abbreviation: Q vs Q' in every cell
	if textX != text {
		for _, c := range c05cells {
			cfg := sc.Cfg
			cfg.Cache = c.cache
			w, rs := runStmts(sc, cfg, []Stmt{{Text: textX, Mode: c.mode}}, nil)
			st.noteRun(w, rs)
			r := rs[0]
			resX[c] = &r
			if r.BuildErr != "" && res[c].BuildErr == "" {
				// the expanded form is not accepted (e.g. an expression legal as an alias but not inline): not judged
				st.Inc("expanded_form_rejected")
				resX = nil
				break
			}
		}
		if resX != nil {
			for _, c := range c05cells {
				if ok, why := sameResult(res[c], resX[c], oc); !ok {
					vs = append(vs, mk("alias-differs", fmt.Sprintf("cell %s: the query and its alias-expanded form give different results (aliased vs expanded): %s | expanded: %s", c, why, textX),
						fmt.Sprintf("cell=%s aliased:%s expanded:%s", c, failSite(res[c]), failSite(resX[c]))))
					break
				}
			}
		}
	}
	if len(vs) > 0 {
		return vs
	}
	// (3) shape and per-row definitions
	for _, c := range c05cells {
		r := res[c]
		if r.Failed() {
			continue
		}
		for ri, row := range r.Rows {
			if len(row) != len(r.Fields) {
				vs = append(vs, mk("row-shape", fmt.Sprintf("cell %s: row %d has %d columns, %d field names announced", c, ri, len(row), len(r.Fields)), "cell="+c.String()))
				return vs
			}
		}
	}
	if !q.Star && len(q.Group) == 0 && len(q.Fields) > 0 && q.Fields[0].E.Kind == "key" && !ref.Failed() {
		exp := q.aliasMap()
		checked := 0
		for _, c := range c05cells {
			r := res[c]
			if r.Failed() {
				continue
			}
			for ri, row := range r.Rows {
				if ri >= 3 {
					break
				}
				key, ok := unquoteCanon(row[0])
				if !ok || !isASCIIPlain(key) {
					continue
				}
				for j := 1; j < len(q.Fields); j++ {
					def := q.Fields[j].E.Render(exp)
					pt := "select " + def + " where key = " + quote(key)
					cfg := Config{Batch: sc.Cfg.Batch, Cache: false}
					w, rs := runStmts(sc, cfg, []Stmt{{Text: pt, Mode: ModeRow}}, nil)
					st.noteRun(w, rs)
					pr := rs[0]
					if pr.Failed() || len(pr.Rows) != 1 || len(pr.Rows[0]) != 1 {
						st.Inc("point_definition_not_evaluable")
						continue
					}
					checked++
					if looseFloat(pr.Rows[0][0]) != looseFloat(row[j]) {
						vs = append(vs, mk("column-differs", fmt.Sprintf("cell %s: row for key %q shows %s in column %d (%s) but `%s` yields %s", c, key, row[j], j, r.Fields[j], pt, pr.Rows[0][0]),
							fmt.Sprintf("cell=%s", c)))
						return vs
					}
				}
			}
		}
		st.Add("columns_checked_against_point_definition", checked)
	}
	return vs
}

func unquoteCanon(c string) (string, bool) {
	if !strings.HasPrefix(c, "s:") {
		return "", false
	}
	s := c[2:]
	if len(s) >= 2 && s[0] == '"' && s[len(s)-1] == '"' && !strings.Contains(s, "\\") {
		return s[1 : len(s)-1], true
	}
	return "", false
}

func c05AliasSig(q *GSelect, st *Stats) string {
	var parts []string
	for _, f := range q.Fields {
		if f.Alias == "" {
			continue
		}
		w := q.Where.countAlias(f.Alias)
		inFields := 0
		for _, o := range q.Fields {
			inFields += o.E.countAlias(f.Alias)
		}
		if w+inFields >= 2 {
			st.Inc("probe:alias_referenced_twice")
		}
		parts = append(parts, fmt.Sprintf("%s:w%d,f%d", typeName(f.E.T), w, inFields))
	}
	for _, o := range q.Order {
		if q.Fields[o.Field].Alias != "" {
			st.Inc("probe:alias_in_order_by")
			parts = append(parts, "ord")
			break
		}
	}
	for _, g := range q.Group {
		if q.Fields[g].Alias != "" {
			st.Inc("probe:alias_in_group_by")
			parts = append(parts, "grp")
			break
		}
	}
	if aliasInWrapper(q.Where) {
		st.Inc("probe:alias_inside_rowwise_wrapper")
		parts = append(parts, "wrap")
	} else {
		for _, f := range q.Fields {
			if aliasInWrapper(f.E) {
				st.Inc("probe:alias_inside_rowwise_wrapper")
				parts = append(parts, "wrap")
				break
			}
		}
	}
	return strings.Join(parts, ";")
}

func aliasInWrapper(e *GExpr) bool {
	if e.Kind == "call" && (e.S == "join" || e.S == "list" || e.S == "int_list" || e.S == "float_list" || e.S == "ilist" || e.S == "flist") {
		for _, a := range e.Args {
			if a.usesAlias() {
				return true
			}
		}
	}
	for _, a := range e.Args {
		if aliasInWrapper(a) {
			return true
		}
	}
	return false
}

func typeName(t GType) string { return []string{"S", "N", "B", "L", "J"}[t] }

// rejectedBetweenReturned: did the scan read a key that was not returned,
// between two keys that were?
func rejectedBetweenReturned(w *World, r *StmtRes) bool {
	if w == nil || len(r.Rows) < 2 {
		return false
	}
	ret := map[string]bool{}
	for _, row := range r.Rows {
		if len(row) > 0 {
			ret[row[0]] = true
		}
	}
	seenReturned, pendingRejected := false, false
	for _, e := range w.H.log[r.EvFrom:r.EvTo] {
		if e.Op != OpNext && e.Op != OpGet {
			continue
		}
		if e.End || e.Miss {
			continue
		}
		if ret[canon(e.Key)] {
			if seenReturned && pendingRejected {
				return true
			}
			seenReturned = true
		} else if seenReturned {
			pendingRejected = true
		}
	}
	return false
}

func shrinkC05(sc *Scenario) []*Scenario {
	var out []*Scenario
	out = append(out, shrinkInit(sc)...)
	out = append(out, shrinkQuery(sc)...)
	out = append(out, shrinkConfig(sc)...)
	return out
}
