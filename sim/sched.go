package main

import (
	"runtime"
	"sync"
)

// ---------------------------------------------------------------------------
// Token scheduler for concurrent simulated clients (DESIGN.md §3.4).
//
// Clients are real goroutines running real kvql code; WHO RUNS is decided
// here. Exactly one client holds the token; at every storage call the holder
// yields: the scheduler reads the next entry of the pre-drawn schedule and
// passes the token.
//
// The hand-off is deliberately INVISIBLE to the Go race detector: the token is
// a plain package variable read and written only inside //go:norace
// functions and waiting is a Gosched spin. A channel/mutex/atomic hand-off
// would create a happens-before edge between every pair of clients at every
// yield, and the detector could then never report a race between clients.
// With the invisible token every pair of conflicting, unsynchronised accesses
// to library state made by two clients is reported, deterministically.
//
// Relies on amd64 TSO and on the compiler reloading a package variable after
// a function call; both are exercised by the self-test.
// ---------------------------------------------------------------------------

const maxClients = 16

type schedState struct {
	turn     int32 // client holding the token; -1 = nobody
	n        int32
	alive    [maxClients]bool
	schedule []int32 // per yield: -1 = keep running the current client, else preferred client
	cursor   int32
	trace    []int32 // who ran after each yield (pre-allocated)
	ntrace   int32
	switches int32
	yields   int32
}

var sched schedState

//go:norace
func schedReset(n int, schedule []int32, trace []int32) {
	sched.turn = -1
	sched.n = int32(n)
	for i := 0; i < maxClients; i++ {
		sched.alive[i] = i < n
	}
	sched.schedule = schedule
	sched.cursor = 0
	sched.trace = trace
	sched.ntrace = 0
	sched.switches = 0
	sched.yields = 0
}

//go:norace
func schedNextAlive(from int32) int32 {
	for i := int32(0); i < sched.n; i++ {
		c := (from + i) % sched.n
		if sched.alive[c] {
			return c
		}
	}
	return -1
}

// schedChoose consumes one schedule entry and returns who runs next.
//
//go:norace
func schedChoose(me int32, meAlive bool) int32 {
	want := int32(-1)
	if int(sched.cursor) < len(sched.schedule) {
		want = sched.schedule[sched.cursor]
		sched.cursor++
	}
	var next int32
	if want < 0 || want >= sched.n {
		if meAlive {
			next = me
		} else {
			next = schedNextAlive(0)
		}
	} else {
		next = schedNextAlive(want)
	}
	if int(sched.ntrace) < len(sched.trace) {
		sched.trace[sched.ntrace] = next
		sched.ntrace++
	}
	if next != me {
		sched.switches++
	}
	return next
}

//go:norace
func schedWait(me int32) {
	for sched.turn != me {
		runtime.Gosched()
	}
}

// schedYield is called by the token holder at every storage call.
//
//go:norace
func schedYield(me int) {
	sched.yields++
	next := schedChoose(int32(me), true)
	if next != int32(me) {
		sched.turn = next
		schedWait(int32(me))
	}
}

// schedFinish is called by a client when its statement list is done.
//
//go:norace
func schedFinish(me int) {
	sched.alive[me] = false
	next := schedChoose(int32(me), false)
	sched.turn = next
}

//go:norace
func schedKick(first int) { sched.turn = int32(first) }

//go:norace
func schedCounters() (yields, switches, ntrace int) {
	return int(sched.yields), int(sched.switches), int(sched.ntrace)
}

// runUnderScheduler runs body(c) for c in [0,n) on n goroutines under the
// token scheduler and returns when all have finished.
func runUnderScheduler(n int, schedule []int32, trace []int32, first int, body func(c int)) {
	schedReset(n, schedule, trace)
	var wg sync.WaitGroup
	for c := 0; c < n; c++ {
		wg.Add(1)
		go func(c int) {
			defer wg.Done()
			schedWait(int32(c))
			body(c)
			schedFinish(c)
		}(c)
	}
	schedKick(first)
	wg.Wait()
}

// --- self-test -------------------------------------------------------------

var tortureCounter int64

//go:norace
func tortureBump() int64 { tortureCounter++; return tortureCounter }

// schedTorture: handoffs among n goroutines; a counter incremented only by the
// token holder (unsynchronised, norace) must end exact, and the trace must be
// identical to the expected one.
func schedTorture(n, perClient int, schedule []int32) (ok bool, trHash uint64) {
	tortureCounter = 0
	trace := make([]int32, n*perClient+n+8)
	runUnderScheduler(n, schedule, trace, 0, func(c int) {
		for i := 0; i < perClient; i++ {
			schedYield(c)
			tortureBump()
		}
	})
	h := uint64(1469598103934665603)
	_, _, nt := schedCounters()
	for i := 0; i < nt; i++ {
		h ^= uint64(uint32(trace[i]))
		h *= 1099511628211
	}
	return tortureCounter == int64(n*perClient), h
}
