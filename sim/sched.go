package main

import (
	"runtime"
	"sync"
)

// ---------------------------------------------------------------------------
// Token scheduler for concurrent simulated clients (DESIGN.md §3.4).
//
// Clients are real goroutines running real kvql code; WHO RUNS is decided
// here. Exactly one client holds the token; at every storage call the holder
// yields: the scheduler reads the next entry of the pre-drawn schedule and
// passes the token.
//
// The hand-off is deliberately INVISIBLE to the Go race detector: the token is
// a plain package variable read and written only inside //go:norace
// functions and waiting is a Gosched spin. A channel/mutex/atomic hand-off
// would create a happens-before edge between every pair of clients at every
// yield, and the detector could then never report a race between clients.
// With the invisible token every pair of conflicting, unsynchronised accesses
// to library state made by two clients is reported, deterministically.
//
// Relies on amd64 TSO and on the compiler reloading a package variable after
// a function call; both are exercised by the self-test.
// ---------------------------------------------------------------------------

const maxClients = 48

type schedState struct {
	turn     int32 // client holding the token; -1 = nobody
	n        int32
	alive    [maxClients]bool
	schedule []int32 // per yield: -1 = keep running the current client, else preferred client
	cursor   int32
	trace    []int32 // who ran after each yield (pre-allocated)
	ntrace   int32
	switches int32
	yields   int32
	// library-internal yield points (kvql.SimYield, build tag verif)
	active     bool
	hookRng    uint64
	hookPerMil int32
	hookSites  []string // enabled sites for this run
	hookYields int32
	hookSwitch int32
	hookCnt    [maxClients]int32 // per client: library yield points reached so far
	// per-client schedules: csched[i][k] = the ID of the client to run after
	// client i's k-th storage call, or -1 to keep running. Decisions that belong
	// to one client do not move when another client is removed (shrinking).
	clock     int64 // logical time: bumped at every yield and at statement invoke/return
	perClient bool
	csched    [maxClients][]int32
	ccur      [maxClients]int32
	ids       [maxClients]int32
	siteCount [len(allHookSites)]int32
}

// allHookSites are the simYield sites compiled into /repo with the verif tag.
var allHookSites = [...]string{"optimizer.parsed", "optimizer.planned", "filter.row", "filter.batch", "regexp.row",
	"call.row", "alias.row", "call.batch", "alias.batch", "aggr.emit", "aggr.update", "order.collect", "order.emit",
	"project.row", "project.batch", "limit.row", "error.render", "lexer.done", "parser.expr", "checker.call"}

//go:norace
func strEq(a, b string) bool {
	if len(a) != len(b) {
		return false
	}
	for i := 0; i < len(a); i++ {
		if a[i] != b[i] {
			return false
		}
	}
	return true
}

//go:norace
func schedSetHooks(sites []string, perMil int, seed uint64) {
	sched.hookSites = sites
	sched.hookPerMil = int32(perMil)
	if seed == 0 {
		seed = 0x9e3779b97f4a7c15
	}
	sched.hookRng = seed
	sched.hookYields = 0
	sched.hookSwitch = 0
	for i := range sched.siteCount {
		sched.siteCount[i] = 0
	}
}

// schedYieldHook is installed as kvql.SimYield: the caller is necessarily the
// token holder. Decisions come from a PRNG kept in the scheduler (seeded by
// the scenario), not from the storage-call schedule, so that schedule keeps
// its meaning when sites are switched on or off.
//
//go:norace
func schedYieldHook(site string) {
	if !sched.active || sched.hookPerMil <= 0 {
		return
	}
	idx := -1
	for i := 0; i < len(sched.hookSites); i++ {
		if strEq(sched.hookSites[i], site) {
			idx = i
			break
		}
	}
	if idx < 0 {
		return
	}
	for i := 0; i < len(allHookSites); i++ {
		if strEq(allHookSites[i], site) {
			sched.siteCount[i]++
			break
		}
	}
	sched.hookYields++
	sched.clock++
	me := sched.turn
	if me < 0 || me >= maxClients {
		return
	}
	// the decision depends only on (seed, this client's ID, how many yield points
	// it has reached): removing other clients does not move it
	k := sched.hookCnt[me]
	sched.hookCnt[me] = k + 1
	x := sched.hookRng ^ (uint64(sched.ids[me])+1)*0x9e3779b97f4a7c15 ^ (uint64(k)+1)*0xd1342543de82ef95
	x ^= x >> 30
	x *= 0xbf58476d1ce4e5b9
	x ^= x >> 27
	x *= 0x94d049bb133111eb
	x ^= x >> 31
	if int32(x%1000) >= sched.hookPerMil {
		return
	}
	wantID := int32((x >> 20) % uint64(maxClients))
	next := int32(-1)
	for i := int32(0); i < sched.n; i++ {
		if sched.ids[i] == wantID && sched.alive[i] {
			next = i
			break
		}
	}
	if next < 0 {
		next = schedNextAlive(int32((x >> 28) % uint64(sched.n)))
	}
	if next < 0 || next == me {
		return
	}
	if int(sched.ntrace) < len(sched.trace) {
		sched.trace[sched.ntrace] = next + 100 // marks a switch at a library-internal point
		sched.ntrace++
	}
	sched.hookSwitch++
	sched.turn = next
	schedWait(me)
}

//go:norace
func schedHookCounters() (yields, switches int, perSite [len(allHookSites)]int32) {
	return int(sched.hookYields), int(sched.hookSwitch), sched.siteCount
}

var sched schedState

//go:norace
func schedReset(n int, schedule []int32, trace []int32) {
	sched.turn = -1
	sched.n = int32(n)
	for i := 0; i < maxClients; i++ {
		sched.alive[i] = i < n
	}
	sched.schedule = schedule
	sched.cursor = 0
	sched.trace = trace
	sched.ntrace = 0
	sched.switches = 0
	sched.yields = 0
	sched.active = true
	sched.clock = 0
	sched.perClient = false
	for i := 0; i < maxClients; i++ {
		sched.ccur[i] = 0
		sched.hookCnt[i] = 0
		sched.ids[i] = int32(i)
		sched.csched[i] = nil
	}
}

// schedSetPerClient switches to per-client schedules (see schedState).
//
//go:norace
func schedSetPerClient(ids []int32, cs [][]int32) {
	sched.perClient = true
	for i := 0; i < len(ids) && i < maxClients; i++ {
		sched.ids[i] = ids[i]
		if i < len(cs) {
			sched.csched[i] = cs[i]
		}
	}
}

//go:norace
func schedStop() { sched.active = false }

//go:norace
func schedNextAlive(from int32) int32 {
	for i := int32(0); i < sched.n; i++ {
		c := (from + i) % sched.n
		if sched.alive[c] {
			return c
		}
	}
	return -1
}

// schedChoose consumes one schedule entry and returns who runs next.
//
//go:norace
func schedChoose(me int32, meAlive bool) int32 {
	if sched.perClient {
		next := me
		if meAlive {
			k := sched.ccur[me]
			sched.ccur[me] = k + 1
			if int(k) < len(sched.csched[me]) {
				if want := sched.csched[me][k]; want >= 0 {
					for i := int32(0); i < sched.n; i++ {
						if sched.ids[i] == want && sched.alive[i] {
							next = i
							break
						}
					}
				}
			}
		} else {
			next = schedNextAlive(me)
		}
		if int(sched.ntrace) < len(sched.trace) {
			sched.trace[sched.ntrace] = next
			sched.ntrace++
		}
		if next != me {
			sched.switches++
		}
		return next
	}
	want := int32(-1)
	if int(sched.cursor) < len(sched.schedule) {
		want = sched.schedule[sched.cursor]
		sched.cursor++
	}
	var next int32
	if want < 0 || want >= sched.n {
		if meAlive {
			next = me
		} else {
			next = schedNextAlive(0)
		}
	} else {
		next = schedNextAlive(want)
	}
	if int(sched.ntrace) < len(sched.trace) {
		sched.trace[sched.ntrace] = next
		sched.ntrace++
	}
	if next != me {
		sched.switches++
	}
	return next
}

//go:norace
func schedWait(me int32) {
	for sched.turn != me {
		runtime.Gosched()
	}
}

// schedYield is called by the token holder at every storage call.
//
//go:norace
func schedYield(me int) {
	sched.yields++
	sched.clock++
	next := schedChoose(int32(me), true)
	if next != int32(me) {
		sched.turn = next
		schedWait(int32(me))
	}
}

// schedFinish is called by a client when its statement list is done.
//
//go:norace
func schedFinish(me int) {
	sched.alive[me] = false
	next := schedChoose(int32(me), false)
	sched.turn = next
}

//go:norace
func schedKick(first int) { sched.turn = int32(first) }

//go:norace
func schedCounters() (yields, switches, ntrace int) {
	return int(sched.yields), int(sched.switches), int(sched.ntrace)
}

// runUnderScheduler runs body(c) for c in [0,n) on n goroutines under the
// token scheduler and returns when all have finished.
func runUnderScheduler(n int, schedule []int32, trace []int32, first int, body func(c int)) {
	runUnderSchedulerX(n, schedule, trace, first, nil, body)
}

func runUnderSchedulerX(n int, schedule []int32, trace []int32, first int, setup func(), body func(c int)) {
	schedReset(n, schedule, trace)
	if setup != nil {
		setup()
	}
	var wg sync.WaitGroup
	for c := 0; c < n; c++ {
		wg.Add(1)
		go func(c int) {
			defer wg.Done()
			schedWait(int32(c))
			body(c)
			schedFinish(c)
		}(c)
	}
	schedKick(first)
	wg.Wait()
	schedStop()
}

// --- self-test -------------------------------------------------------------

var tortureCounter int64

//go:norace
func tortureBump() int64 { tortureCounter++; return tortureCounter }

// schedTorture: handoffs among n goroutines; a counter incremented only by the
// token holder (unsynchronised, norace) must end exact, and the trace must be
// identical to the expected one.
func schedTorture(n, perClient int, schedule []int32) (ok bool, trHash uint64) {
	tortureCounter = 0
	trace := make([]int32, n*perClient+n+8)
	runUnderScheduler(n, schedule, trace, 0, func(c int) {
		for i := 0; i < perClient; i++ {
			schedYield(c)
			tortureBump()
		}
	})
	h := uint64(1469598103934665603)
	_, _, nt := schedCounters()
	for i := 0; i < nt; i++ {
		h ^= uint64(uint32(trace[i]))
		h *= 1099511628211
	}
	return tortureCounter == int64(n*perClient), h
}

// schedTick advances the logical clock and returns it; called by the token
// holder when a statement is invoked and when it returns, so that every
// operation has a strict [invoke, return] interval on the global event order.
//
//go:norace
func schedTick() int64 {
	sched.clock++
	return sched.clock
}

// schedCurrent returns the index of the client holding the token.
//
//go:norace
func schedCurrent() int { return int(sched.turn) }
