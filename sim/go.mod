module kvqlsim

go 1.21.1

require (
	github.com/anishathalye/porcupine v1.3.0
	github.com/beorn7/perks v1.0.1
	github.com/c4pt0r/kvql v0.0.0
)

replace github.com/c4pt0r/kvql => /repo
