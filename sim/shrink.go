package main

import (
	"encoding/json"
	"fmt"
	"os"
	"path/filepath"
	"strings"
	"time"
)

// ---------------------------------------------------------------------------
// Known findings (committed file, never written at run time)
// ---------------------------------------------------------------------------

type KnownEntry struct {
	ID          string   `json:"id"`
	Property    string   `json:"property"`
	Kind        string   `json:"kind"`
	SigContains []string `json:"sig_contains"`
	What        string   `json:"what"`
}

type FixedEntry struct {
	Property string `json:"property"`
	Commit   string `json:"commit"`
	What     string `json:"what"`
}

type KnownFile struct {
	Known []KnownEntry `json:"known"`
	Fixed []FixedEntry `json:"fixed"`
}

func loadKnown() *KnownFile {
	kf := &KnownFile{}
	b, err := os.ReadFile(filepath.Join(verifDir(), "known_findings.json"))
	if err != nil {
		return kf
	}
	json.Unmarshal(b, kf)
	return kf
}

func (k *KnownFile) match(v Violation) *KnownEntry {
	for i := range k.Known {
		e := &k.Known[i]
		if e.Property != v.Prop || e.Kind != v.Kind || len(e.SigContains) == 0 {
			continue
		}
		ok := true
		for _, s := range e.SigContains {
			if !strings.Contains(v.Sig, s) {
				ok = false
				break
			}
		}
		if ok {
			return e
		}
	}
	return nil
}

func (k *KnownFile) byID(id string) *KnownEntry {
	for i := range k.Known {
		if k.Known[i].ID == id {
			return &k.Known[i]
		}
	}
	return &KnownEntry{ID: id, What: id}
}

// ---------------------------------------------------------------------------
// Minimisation: greedy delta debugging over scenario values. A candidate is
// accepted only if re-execution yields the same property and violation kind.
// ---------------------------------------------------------------------------

func cloneScenario(sc *Scenario) *Scenario {
	b, _ := json.Marshal(sc)
	var c Scenario
	json.Unmarshal(b, &c)
	return &c
}

func minimise(p *Prop, sc *Scenario, v Violation) (*Scenario, Violation, bool) {
	if p.Shrink == nil && p.ShrinkLazy == nil {
		return sc, v, false
	}
	cur, curV := sc, v
	budget := 600
	deadline := time.Now().Add(25 * time.Second)
	run := func(c *Scenario) []Violation { return safeRun(p, c) }
	if p.Race {
		budget = 900
		deadline = time.Now().Add(75 * time.Second)
	}
	if p.Race && v.Kind == "data-race" {
		// detector reports are de-duplicated per process: evaluate candidates in fresh processes
		budget = 60
		deadline = time.Now().Add(60 * time.Second)
		run = runInSubprocess
	}
	changed := false
	dbg := os.Getenv("VERIF_SHRINK_DEBUG") != ""
	for budget > 0 && time.Now().Before(deadline) {
		progress := false
		tried := 0
		try := func(cand *Scenario) bool {
			if budget <= 0 || time.Now().After(deadline) {
				return true // stop enumerating
			}
			budget--
			tried++
			for _, nv := range run(cand) {
				if nv.Kind == curV.Kind {
					cur, curV = cand, nv
					progress = true
					changed = true
					return true
				}
			}
			return false
		}
		if p.ShrinkLazy != nil {
			p.ShrinkLazy(cur, try)
		} else {
			for _, cand := range p.Shrink(cur) {
				if try(cand) {
					break
				}
			}
		}
		if dbg {
			fmt.Fprintf(os.Stderr, "shrink: tried %d, progress=%v, budget %d, %v left\n", tried, progress, budget, time.Until(deadline).Round(time.Second))
		}
		if !progress {
			break
		}
	}
	return cur, curV, changed
}

func safeRun(p *Prop, sc *Scenario) (vs []Violation) {
	defer func() {
		if r := recover(); r != nil {
			vs = nil
		}
	}()
	return p.Run(sc, NewStats())
}

// --- generic candidate producers -------------------------------------------

// shrinkInit proposes scenarios with fewer / shorter initial pairs.
func shrinkInit(sc *Scenario) []*Scenario {
	var out []*Scenario
	n := len(sc.Init)
	if n == 0 {
		return nil
	}
	// halves, quarters, ... singles; candidates share everything but the Init
	// slice with sc (statement texts of megabytes are not copied), and no more
	// than about 130 are proposed per round: a large store loses big chunks first
	// and reaches the single-pair rounds once it is small
	for chunk := n / 2; chunk >= 1; chunk /= 2 {
		for from := 0; from < n; from += chunk {
			to := from + chunk
			if to > n {
				to = n
			}
			c := *sc
			c.Init = append(append(make([]KV, 0, n-(to-from)), sc.Init[:from]...), sc.Init[to:]...)
			out = append(out, &c)
		}
		if chunk == 1 || len(out) > 130 {
			break
		}
	}
	return out
}

func shrinkConfig(sc *Scenario) []*Scenario {
	var out []*Scenario
	if sc.Cfg.Alias {
		c := cloneScenario(sc)
		c.Cfg.Alias = false
		out = append(out, c)
	}
	if sc.Cfg.Lazy {
		c := cloneScenario(sc)
		c.Cfg.Lazy = false
		out = append(out, c)
	}
	for _, b := range []int{1, 2, 3} {
		if sc.Cfg.Batch > b {
			c := cloneScenario(sc)
			c.Cfg.Batch = b
			out = append(out, c)
		}
	}
	return out
}
