package main

import (
	"encoding/json"
	"flag"
	"fmt"
	"os"
	"os/exec"
	"path/filepath"
	"runtime"
	"sort"
	"strconv"
	"strings"
	"time"
)

// ---------------------------------------------------------------------------
// Property registry
// ---------------------------------------------------------------------------

type Violation struct {
	Prop   string `json:"property"`
	Kind   string `json:"kind"`
	Detail string `json:"detail"`
	Sig    string `json:"sig"` // identifying features with literals blanked, for known-finding matching
	// Pinned, when set, is the scenario that reproduces exactly this violation
	// (e.g. with the single fault fixed); the worker reports it instead of the
	// enumerating scenario.
	Pinned *Scenario `json:"-"`
}

type Found struct {
	V        Violation `json:"violation"`
	Scenario *Scenario `json:"scenario"`
	Index    int       `json:"index"`
}

type Stats struct {
	Cases       int               `json:"cases"`       // scenarios generated
	Evaluations int               `json:"evaluations"` // simulated executions (statement runs on a simulated store)
	Steps       int               `json:"steps"`       // storage events
	Polls       int               `json:"polls"`
	Counters    map[string]int    `json:"counters"`
	Distinct    map[string]int    `json:"distinct"` // signature -> count, non-trivial cases only
	Samples     []any             `json:"samples"`
	Digests     map[string]string `json:"digests"` // run index -> digest, for the sampled audit indices
	Found       []Found           `json:"found"`
	NFound      int               `json:"nfound"`
	curDigest   uint64
	curHook     int // library-internal yield points reached by the current scenario (C19)
}

func NewStats() *Stats {
	return &Stats{Counters: map[string]int{}, Distinct: map[string]int{}, Digests: map[string]string{}}
}

func (s *Stats) Inc(k string)        { s.Counters[k]++ }
func (s *Stats) Add(k string, n int) { s.Counters[k] += n }
func (s *Stats) Seen(sig string)     { s.Distinct[sig]++ }
func (s *Stats) Sample(v any, max int) {
	if len(s.Samples) < max {
		s.Samples = append(s.Samples, v)
	}
}

// noteRun accounts one simulated execution of a list of statements.
func (s *Stats) noteRun(w *World, rs []StmtRes) {
	s.Evaluations++
	s.Steps += len(w.H.log)
	for i := range rs {
		s.Polls += len(rs[i].Polls)
	}
	for _, f := range w.H.fired {
		s.Inc("fault_fired:" + f.Kind)
	}
	s.digestRun(w, rs)
}

func (s *Stats) digestRun(w *World, rs []StmtRes) {
	h := s.curDigest
	if h == 0 {
		h = 1469598103934665603
	}
	mix := func(str string) {
		for i := 0; i < len(str); i++ {
			h ^= uint64(str[i])
			h *= 1099511628211
		}
		h ^= 0xfe
		h *= 1099511628211
	}
	for _, e := range w.H.log {
		mix(e.Op)
		mix(e.Key)
		mix(e.Err)
		for _, k := range e.Keys {
			mix(k)
		}
		for _, k := range e.Vals {
			mix(k)
		}
		mix(strconv.Itoa(e.Poll))
	}
	for i := range rs {
		mix(rs[i].BuildErr)
		mix(rs[i].Err)
		mix(rs[i].Panic)
		for _, r := range rs[i].Rows {
			for _, c := range r {
				mix(c)
			}
		}
	}
	s.curDigest = h
}

type Prop struct {
	ID          string
	Level       string // evidence level
	Rule        string
	Assumptions []string
	Real        string
	NCases      func(tier string) int
	Gen         func(seed uint64, i int, tier string) *Scenario
	Run         func(sc *Scenario, st *Stats) []Violation
	// Shrink returns candidate simplifications of sc (each one step simpler).
	Shrink func(sc *Scenario) []*Scenario
	// ShrinkLazy, when set, is used instead of Shrink: it calls try(candidate)
	// for one candidate at a time (building it only then) and stops as soon as
	// try returns true (candidate accepted).
	ShrinkLazy func(sc *Scenario, try func(*Scenario) bool)
	// Finish lets a property add derived coverage keys / probe checks.
	Finish     func(st *Stats, cov map[string]any, tier string) (infraErr string)
	Exhaustive func(tier string) bool
	Race       bool // needs the -race binary
}

var registry = map[string]*Prop{}

func register(p *Prop) { registry[p.ID] = p }

// ---------------------------------------------------------------------------
// Worker
// ---------------------------------------------------------------------------

const auditStride = 37

func workerMain(args []string) int {
	fs := flag.NewFlagSet("worker", flag.ExitOnError)
	prop := fs.String("prop", "", "")
	tier := fs.String("tier", "quick", "")
	seed := fs.Int64("seed", 1, "")
	w := fs.Int("w", 0, "")
	nw := fs.Int("nw", 1, "")
	out := fs.String("out", "", "")
	audit := fs.Bool("audit", false, "run only the audit sample indices")
	limit := fs.Int("n", -1, "override number of cases")
	fs.Parse(args)
	p := registry[*prop]
	if p == nil {
		fmt.Fprintln(os.Stderr, "unknown property", *prop)
		return 2
	}
	n := p.NCases(*tier)
	if *limit >= 0 {
		n = *limit
	}
	st := NewStats()
	for i := *w; i < n; i += *nw {
		if *audit && i%auditStride != 0 {
			continue
		}
		cs := deriveSeed(*seed, p.ID, i)
		sc := p.Gen(cs, i, *tier)
		if sc == nil {
			continue
		}
		stampScenario(p, sc, cs)
		st.Cases++
		st.curDigest = 0
		st.curHook = 0
		if sc.Family != "" && p.ID != "C08" && (p.ID != "C13" || sc.Family == "scale") {
			st.Inc("rare_family:" + sc.Family) // how often each rare generator family was drawn
		}
		vs := p.Run(sc, st)
		if i%auditStride == 0 {
			st.Digests[strconv.Itoa(i)] = strconv.FormatUint(st.curDigest, 16) + ":" + strconv.Itoa(st.curHook)
		}
		for _, v := range vs {
			st.NFound++
			v.Detail = clipDetail(v.Detail)
			if len(st.Found) < 40 {
				fsc := sc
				if v.Pinned != nil {
					fsc = v.Pinned
					fsc.Prop, fsc.Seed = sc.Prop, sc.Seed
				}
				st.Found = append(st.Found, Found{V: v, Scenario: fsc, Index: i})
			}
		}
	}
	b, err := json.Marshal(st)
	if err != nil {
		fmt.Fprintln(os.Stderr, "marshal:", err)
		return 2
	}
	if *out == "" {
		os.Stdout.Write(b)
		return 0
	}
	if err := os.WriteFile(*out, b, 0o644); err != nil {
		fmt.Fprintln(os.Stderr, err)
		return 2
	}
	return 0
}

// clipDetail bounds a violation's text (scale cases carry statements of
// megabytes; the replay file holds the whole scenario anyway).
func clipDetail(d string) string {
	if len(d) <= 3000 {
		return d
	}
	return d[:2400] + fmt.Sprintf(" …(%d bytes omitted)… ", len(d)-2800) + d[len(d)-400:]
}

// ---------------------------------------------------------------------------
// Orchestrator
// ---------------------------------------------------------------------------

func verifDir() string {
	if d := os.Getenv("VERIF_DIR"); d != "" {
		return d
	}
	return "/verif"
}

func checkMain(args []string) int {
	fs := flag.NewFlagSet("check", flag.ExitOnError)
	propID := fs.String("prop", "", "")
	tier := fs.String("tier", "quick", "")
	workers := fs.Int("workers", 0, "")
	limit := fs.Int("n", -1, "")
	noEvidence := fs.Bool("no-evidence", false, "")
	fs.Parse(args)
	p := registry[*propID]
	if p == nil {
		fmt.Fprintln(os.Stderr, "unknown property", *propID)
		return 2
	}
	seed := int64(1)
	if s := os.Getenv("VERIF_SEED"); s != "" {
		v, err := strconv.ParseInt(s, 10, 64)
		if err != nil {
			fmt.Fprintln(os.Stderr, "bad VERIF_SEED:", s)
			return 2
		}
		seed = v
	}
	fmt.Printf("VERIF_SEED=%d property=%s tier=%s\n", seed, p.ID, *tier)
	nw := *workers
	if nw <= 0 {
		nw = runtime.NumCPU()
		if v := os.Getenv("VERIF_WORKERS"); v != "" {
			if x, err := strconv.Atoi(v); err == nil && x > 0 {
				nw = x
			}
		}
	}
	start := time.Now()
	self, _ := os.Executable()
	// one scratch directory per invocation: two runs of the same check (another
	// seed, another tier) must not read each other's worker files
	outDir := filepath.Join(verifDir(), ".build", "out", fmt.Sprintf("%s-%d", p.ID, os.Getpid()))
	os.RemoveAll(outDir)
	os.MkdirAll(outDir, 0o755)
	// the most recent run of a property is also reachable under a stable name (tools/foundsum.py)
	stable := filepath.Join(verifDir(), ".build", "out", p.ID)
	os.RemoveAll(stable)
	os.Symlink(outDir, stable)
	defer func() {
		// keep only the latest scratch directory of this property
		olds, _ := filepath.Glob(filepath.Join(verifDir(), ".build", "out", p.ID+"-*"))
		for _, o := range olds {
			if o != outDir {
				if fi, err := os.Stat(o); err == nil && time.Since(fi.ModTime()) > 45*time.Minute {
					os.RemoveAll(o)
				}
			}
		}
		if *noEvidence {
			os.RemoveAll(outDir) // tool runs: nothing reads the worker files afterwards
		}
		reps, _ := filepath.Glob(filepath.Join(verifDir(), ".build", "replays", "*"))
		for _, o := range reps {
			if fi, err := os.Stat(o); err == nil && time.Since(fi.ModTime()) > 45*time.Minute {
				os.RemoveAll(o)
			}
		}
	}()

	timeout := 8 * time.Minute
	if *tier == "thorough" {
		timeout = 5 * time.Hour
	}
	if v := os.Getenv("VERIF_WATCHDOG_S"); v != "" {
		if x, err := strconv.Atoi(v); err == nil && x > 0 {
			timeout = time.Duration(x) * time.Second
		}
	}
	type job struct {
		cmd  *exec.Cmd
		file string
		log  string
	}
	var jobs []job
	altWorkers := 0
	mk := func(w, n int, audit bool, gomax int) job {
		name := fmt.Sprintf("w%02d", w)
		if audit {
			name = fmt.Sprintf("audit%02d", w)
		}
		f := filepath.Join(outDir, name+".json")
		a := []string{"worker", "-prop", p.ID, "-tier", *tier, "-seed", strconv.FormatInt(seed, 10),
			"-w", strconv.Itoa(w), "-nw", strconv.Itoa(n), "-out", f, "-n", strconv.Itoa(*limit)}
		if audit {
			a = append(a, "-audit")
		}
		bin := self
		if alt := os.Getenv("SIMKV_ALT_BIN"); alt != "" && p.Race && w%2 == 1 {
			bin = alt
			altWorkers++
		}
		c := exec.Command(bin, a...)
		rl := filepath.Join(outDir, name+".race")
		c.Env = append(os.Environ(), "GOMAXPROCS="+strconv.Itoa(gomax), "SIMKV_RACE_LOG="+rl, "GORACE=halt_on_error=0 exitcode=0 log_path="+rl)
		lf := filepath.Join(outDir, name+".log")
		lfh, _ := os.Create(lf)
		c.Stdout = lfh
		c.Stderr = lfh
		return job{c, f, lf}
	}
	if p.Race && nw > 8 {
		nw = 8
	}
	for w := 0; w < nw; w++ {
		gm := 2
		if p.Race {
			gm = []int{1, 4, 2, 8}[w%4]
		}
		jobs = append(jobs, mk(w, nw, false, gm))
	}
	// audit: the sampled indices again, in separate processes, other GOMAXPROCS, other worker count
	jobs = append(jobs, mk(0, 2, true, 1), mk(1, 2, true, 16))
	for i := range jobs {
		if err := jobs[i].cmd.Start(); err != nil {
			fmt.Fprintln(os.Stderr, "cannot start worker:", err)
			return 2
		}
	}
	done := make(chan error, len(jobs))
	for i := range jobs {
		go func(j job) { done <- j.cmd.Wait() }(jobs[i])
	}
	deadline := time.After(timeout)
	infra := ""
	for range jobs {
		select {
		case err := <-done:
			if err != nil {
				infra = "worker failed: " + err.Error()
			}
		case <-deadline:
			for _, j := range jobs {
				if j.cmd.Process != nil {
					j.cmd.Process.Kill()
				}
			}
			fmt.Fprintln(os.Stderr, "INFRA: watchdog: workers exceeded", timeout)
			return 2
		}
	}
	if infra != "" {
		for _, j := range jobs {
			if b, err := os.ReadFile(j.log); err == nil && len(b) > 0 {
				s := string(b)
				if len(s) > 3000 {
					s = s[:3000]
				}
				fmt.Fprintln(os.Stderr, s)
			}
		}
		fmt.Fprintln(os.Stderr, "INFRA:", infra)
		return 2
	}

	total := NewStats()
	auditDig := map[string][]string{}
	for _, j := range jobs {
		b, err := os.ReadFile(j.file)
		if err != nil {
			fmt.Fprintln(os.Stderr, "INFRA: missing worker output", j.file)
			return 2
		}
		var st Stats
		if err := json.Unmarshal(b, &st); err != nil {
			fmt.Fprintln(os.Stderr, "INFRA: bad worker output", j.file, err)
			return 2
		}
		if strings.Contains(filepath.Base(j.file), "audit") {
			for k, v := range st.Digests {
				auditDig[k] = append(auditDig[k], v)
			}
			total.Add("audit_reexecutions", st.Cases)
			continue
		}
		total.Cases += st.Cases
		total.Evaluations += st.Evaluations
		total.Steps += st.Steps
		total.Polls += st.Polls
		total.NFound += st.NFound
		for k, v := range st.Counters {
			total.Counters[k] += v
		}
		for k, v := range st.Distinct {
			total.Distinct[k] += v
		}
		for k, v := range st.Digests {
			total.Digests[k] = v
		}
		total.Found = append(total.Found, st.Found...)
		for _, s := range st.Samples {
			total.Sample(s, 5)
		}
	}
	// determinism audit
	identical, compared := 0, 0
	for k, v := range total.Digests {
		for _, a := range auditDig[k] {
			compared++
			switch {
			case a == v:
				identical++
			case a[strings.IndexByte(a, ':')+1:] != v[strings.IndexByte(v, ':')+1:]:
				// The library itself executed a different number of its yield points in the two
				// processes: it keeps state process-wide (a cache that skips work already done),
				// and the audit process has another history than the worker. The schedule then
				// legitimately differs; results are still judged by the oracles in each process,
				// and a violation is re-verified by (sequence) replay. Counted, not a failure.
				identical++
				total.Counters["audit_runs_with_library_history_dependent_schedule"]++
			default:
				fmt.Fprintf(os.Stderr, "INFRA: run %s of %s is not reproducible across processes (digest %s vs %s)\n", k, p.ID, v, a)
			}
		}
	}
	if compared != identical {
		if total.NFound == 0 {
			fmt.Fprintln(os.Stderr, "INFRA: determinism audit failed and no violation was found; refusing to report")
			return 2
		}
		// Violations were found and each is re-verified by replay below; the
		// non-reproducibility is then most likely their symptom (library state
		// that outlives a statement), not a harness defect. Recorded, not fatal.
		fmt.Fprintf(os.Stderr, "note: %d of %d audited runs were not reproducible across processes\n", compared-identical, compared)
		total.Counters["audit_mismatches"] = compared - identical
	}
	if p.Race {
		// race reports written by workers
		matches, _ := filepath.Glob(filepath.Join(outDir, "*.race.*"))
		total.Counters["race_report_files"] = len(matches)
	}

	sort.SliceStable(total.Found, func(i, j int) bool { return total.Found[i].Index < total.Found[j].Index })
	if altWorkers > 0 {
		total.Counters["workers_on_second_go_runtime(go1.26.8)"] = altWorkers
	}
	total.Counters["workers_on_default_go_runtime("+runtime.Version()+")"] = len(jobs) - altWorkers
	rc := report(p, *tier, seed, total, compared, identical, time.Since(start), *noEvidence, nw)
	return rc
}

// report minimises violations, matches known findings, writes replay files and
// the evidence file, prints the verdict lines, and returns the exit status.
func report(p *Prop, tier string, seed int64, st *Stats, compared, identical int, wall time.Duration, noEvidence bool, nw int) int {
	kf := loadKnown()
	groups := map[string][]Found{}
	var order []string
	for _, f := range st.Found {
		g := f.V.Kind + "|" + f.V.Sig
		if _, ok := groups[g]; !ok {
			order = append(order, g)
		}
		groups[g] = append(groups[g], f)
	}
	violations := 0
	unreplayable := 0
	knownHit := map[string]int{}
	replayDir := filepath.Join(verifDir(), "replays")
	if noEvidence {
		// tool runs (seeded / benign changes) may overlap in time: keep their replay files apart
		replayDir = filepath.Join(verifDir(), ".build", "replays", strconv.Itoa(os.Getpid()))
	}
	const maxGroups = 12
	for gi, g := range order {
		f := groups[g][0]
		if gi >= maxGroups {
			// still a violation unless known; do not spend shrink budget
			if k := kf.match(f.V); k != nil {
				knownHit[k.ID] += len(groups[g])
				continue
			}
			violations++
			path := writeReplay(replayDir, p.ID, seed, gi, f.Scenario, f.V, false)
			fmt.Printf("VIOLATION property=%s replay=%s\n", p.ID, path)
			continue
		}
		msc, mv, shrunk := minimise(p, f.Scenario, f.V)
		if k := kf.match(mv); k != nil {
			knownHit[k.ID] += len(groups[g])
			continue
		}
		if k := kf.match(f.V); k != nil {
			knownHit[k.ID] += len(groups[g])
			continue
		}
		path := writeReplay(replayDir, p.ID, seed, gi, msc, mv, shrunk)
		if !verifyReplay(path) {
			// the minimised scenario does not fail the same way in a fresh process: fall back to the original
			fmt.Fprintf(os.Stderr, "note: minimised scenario %s did not replay; writing the unminimised one\n", path)
			path = writeReplay(replayDir, p.ID, seed, gi, f.Scenario, f.V, false)
			mv = f.V
			if !verifyReplay(path) {
				if sp := trySequence(replayDir, p, tier, seed, gi, f, nw); sp != "" {
					violations++
					fmt.Printf("VIOLATION property=%s replay=%s\n", p.ID, sp)
					fmt.Printf("  kind=%s cases=%d (reproduces only together with the scenarios executed before it in the same process) detail=%s\n", f.V.Kind, len(groups[g]), oneLine(f.V.Detail, 400))
					continue
				}
				fmt.Fprintf(os.Stderr, "INFRA: violation (kind=%s) does not replay in a fresh process: %s\n", f.V.Kind, path)
				unreplayable++
				continue
			}
		}
		violations++
		fmt.Printf("VIOLATION property=%s replay=%s\n", p.ID, path)
		fmt.Printf("  kind=%s cases=%d detail=%s\n", mv.Kind, len(groups[g]), oneLine(mv.Detail, 400))
	}
	ids := make([]string, 0, len(knownHit))
	for id := range knownHit {
		ids = append(ids, id)
	}
	sort.Strings(ids)
	for _, id := range ids {
		k := kf.byID(id)
		fmt.Printf("KNOWN-FINDING: property=%s %s (matched %d cases)\n", p.ID, k.What, knownHit[id])
	}

	nontrivial := len(st.Distinct)
	cov := map[string]any{
		"evaluations":            st.Evaluations,
		"distinct_nontrivial":    nontrivial,
		"rule":                   p.Rule,
		"samples":                st.Samples,
		"scenarios":              st.Cases,
		"logical_steps":          map[string]int{"storage_events": st.Steps, "polls": st.Polls},
		"simulated_time_note":    "kvql has no clock; simulated time is reported as logical steps (storage events and polls)",
		"counters":               st.Counters,
		"replays_compared":       compared,
		"replays_identical":      identical,
		"workers":                nw,
		"components":             p.Real,
		"known_findings_matched": knownHit,
	}
	if wall.Seconds() > 0 {
		cov["scenarios_per_hour"] = int(float64(st.Cases) / wall.Hours())
		cov["executions_per_hour"] = int(float64(st.Evaluations) / wall.Hours())
	}
	if p.Exhaustive != nil && p.Exhaustive(tier) {
		cov["exhaustive"] = true
	}
	infra := ""
	if p.Finish != nil {
		infra = p.Finish(st, cov, tier)
	}
	if st.Samples == nil {
		cov["samples"] = []any{}
	}
	ev := map[string]any{
		"property_id": p.ID,
		"tier":        tier,
		"seed":        seed,
		"level":       p.Level,
		"coverage":    cov,
		"assumptions": p.Assumptions,
		"wall_s":      wall.Seconds(),
		"violations":  violations,
	}
	if !noEvidence {
		os.MkdirAll(filepath.Join(verifDir(), "evidence"), 0o755)
		b, _ := json.MarshalIndent(ev, "", " ")
		if err := os.WriteFile(filepath.Join(verifDir(), "evidence", p.ID+".json"), b, 0o644); err != nil {
			fmt.Fprintln(os.Stderr, "INFRA: cannot write evidence:", err)
			return 2
		}
	}
	fmt.Printf("property=%s tier=%s scenarios=%d executions=%d distinct=%d storage_events=%d violations=%d known=%d wall=%.1fs\n",
		p.ID, tier, st.Cases, st.Evaluations, nontrivial, st.Steps, violations, len(knownHit), wall.Seconds())
	if violations > 0 {
		return 1
	}
	if unreplayable > 0 {
		fmt.Fprintf(os.Stderr, "INFRA: %d violation group(s) could not be reproduced by replay; not reported as violations\n", unreplayable)
		return 2
	}
	if infra != "" {
		fmt.Fprintln(os.Stderr, "INFRA:", infra)
		return 2
	}
	return 0
}

func oneLine(s string, n int) string {
	s = strings.ReplaceAll(s, "\n", " ⏎ ")
	if len(s) > n {
		s = s[:n] + "…"
	}
	return s
}

type ReplayFile struct {
	Property  string    `json:"property"`
	Violation Violation `json:"violation"`
	Minimised bool      `json:"minimised"`
	Scenario  *Scenario `json:"scenario"`
	Note      string    `json:"note"`
	// Sequence, when set, says that the violation needs the scenarios executed
	// before it in the same process (state the library keeps process-wide): the
	// replay re-executes scenarios From, From+NW, ..., To of (tier, seed) in one
	// fresh process and judges the last one.
	Sequence *SeqSpec `json:"sequence,omitempty"`
}

type SeqSpec struct {
	Tier string `json:"tier"`
	Seed int64  `json:"seed"`
	NW   int    `json:"stride"`
	From int    `json:"from"`
	To   int    `json:"to"`
}

// trySequence: a violation that a fresh process does not reproduce from its
// scenario alone is re-tried together with its predecessors in the worker
// that found it (1, 3, 10, ... of them), each attempt in a fresh process.
func trySequence(dir string, p *Prop, tier string, seed int64, n int, f Found, nw int) string {
	if nw <= 0 {
		return ""
	}
	w := f.Index % nw
	os.MkdirAll(dir, 0o755)
	for _, k := range []int{1, 3, 10, 40, 200, 1000, 5000, 20000} {
		from := f.Index - k*nw
		if from < w {
			from = w
		}
		path := filepath.Join(dir, fmt.Sprintf("%s-%d-%d.json", p.ID, seed, n))
		rf := ReplayFile{Property: p.ID, Violation: f.V, Scenario: f.Scenario,
			Sequence: &SeqSpec{Tier: tier, Seed: seed, NW: nw, From: from, To: f.Index},
			Note:     "the violation depends on state left behind by the scenarios executed before it in the same process; replay with: /verif/run_check.sh replay " + path}
		b, _ := json.MarshalIndent(rf, "", " ")
		os.WriteFile(path, b, 0o644)
		if verifyReplay(path) {
			return path
		}
		if from == w {
			break
		}
	}
	return ""
}

func writeReplay(dir, prop string, seed int64, n int, sc *Scenario, v Violation, min bool) string {
	os.MkdirAll(dir, 0o755)
	path := filepath.Join(dir, fmt.Sprintf("%s-%d-%d.json", prop, seed, n))
	rf := ReplayFile{Property: prop, Violation: v, Minimised: min, Scenario: sc,
		Note: "replay with: /verif/run_check.sh replay " + path}
	b, _ := json.MarshalIndent(rf, "", " ")
	os.WriteFile(path, b, 0o644)
	return path
}

func replayMain(args []string) int {
	if len(args) < 1 {
		fmt.Fprintln(os.Stderr, "usage: simkv replay <file>")
		return 2
	}
	b, err := os.ReadFile(args[0])
	if err != nil {
		fmt.Fprintln(os.Stderr, err)
		return 2
	}
	var rf ReplayFile
	if err := json.Unmarshal(b, &rf); err != nil {
		fmt.Fprintln(os.Stderr, err)
		return 2
	}
	p := registry[rf.Property]
	if p == nil {
		fmt.Fprintln(os.Stderr, "unknown property", rf.Property)
		return 2
	}
	if p.Race && raceEnabled && os.Getenv("SIMKV_RACE_LOG") == "" {
		// detector reports are read back from a log file: re-run with it configured
		self, _ := os.Executable()
		c := exec.Command(self, "replay", args[0])
		c.Env = raceEnv("replay")
		c.Stdout, c.Stderr = os.Stdout, os.Stderr
		c.Run()
		if c.ProcessState != nil {
			return c.ProcessState.ExitCode()
		}
		return 2
	}
	st := NewStats()
	if sq := rf.Sequence; sq != nil {
		for i := sq.From; i < sq.To; i += sq.NW {
			cs := deriveSeed(sq.Seed, p.ID, i)
			if sc := p.Gen(cs, i, sq.Tier); sc != nil {
				stampScenario(p, sc, cs)
				safeRun(p, sc)
			}
		}
		cs := deriveSeed(sq.Seed, p.ID, sq.To)
		rf.Scenario = p.Gen(cs, sq.To, sq.Tier)
		if rf.Scenario == nil {
			return 2
		}
		stampScenario(p, rf.Scenario, cs)
	}
	vs := p.Run(rf.Scenario, st)
	for _, v := range vs {
		if v.Kind == rf.Violation.Kind {
			fmt.Printf("VIOLATION property=%s replay=%s\n", p.ID, args[0])
			fmt.Printf("  kind=%s detail=%s\n", v.Kind, v.Detail)
			return 1
		}
	}
	fmt.Printf("replay of %s: violation kind %q did not recur (%d other violations)\n", args[0], rf.Violation.Kind, len(vs))
	for _, v := range vs {
		fmt.Printf("  other: kind=%s detail=%s\n", v.Kind, oneLine(v.Detail, 300))
	}
	return 0
}

// memoryGuard: the sandbox has no memory limit, and a defect (of kvql under a
// seeded change, or of this harness) that allocates without bound would take
// the machine down. Every process of the harness polls its own resident set
// and exits with status 2 (infrastructure trouble, never a violation) beyond
// VERIF_MEM_MB megabytes (default 12000).
func memoryGuard() {
	limit := 12000
	if v, err := strconv.Atoi(os.Getenv("VERIF_MEM_MB")); err == nil && v > 0 {
		limit = v
	}
	for {
		time.Sleep(300 * time.Millisecond)
		b, err := os.ReadFile("/proc/self/statm")
		if err != nil {
			return
		}
		f := strings.Fields(string(b))
		if len(f) < 2 {
			return
		}
		pages, _ := strconv.Atoi(f[1])
		if mb := pages * (os.Getpagesize() / 1024) / 1024; mb > limit {
			fmt.Fprintf(os.Stderr, "INFRA: process %d (%s) exceeded %d MB resident (%d MB); giving up\n", os.Getpid(), strings.Join(os.Args[1:], " "), limit, mb)
			os.Exit(2)
		}
	}
}

func main() {
	if len(os.Args) < 2 {
		fmt.Fprintln(os.Stderr, "usage: simkv check|worker|replay|selftest ...")
		os.Exit(2)
	}
	go memoryGuard()
	switch os.Args[1] {
	case "check":
		os.Exit(checkMain(os.Args[2:]))
	case "worker":
		os.Exit(workerMain(os.Args[2:]))
	case "replay":
		os.Exit(replayMain(os.Args[2:]))
	case "selftest":
		os.Exit(selftestMain(os.Args[2:]))
	case "gen":
		os.Exit(genMain(os.Args[2:]))
	case "runsc":
		os.Exit(runscMain(os.Args[2:]))
	}
	fmt.Fprintln(os.Stderr, "unknown command", os.Args[1])
	os.Exit(2)
}

// stampScenario completes a generated scenario: identity, and the caller
// variant that costs no generator draw (so that adding it moved no random
// stream): in half of the scenarios the caller calls ctx.Clear() after every
// poll, as the loop in examples/memkv does.
func stampScenario(p *Prop, sc *Scenario, cs uint64) {
	sc.Prop = p.ID
	sc.Seed = cs
	sc.Cfg.ClearCtx = (cs>>9)&1 == 1
}

// genMain prints the scenario generated for (prop, tier, seed, i) — a debugging aid.
func genMain(args []string) int {
	fs := flag.NewFlagSet("gen", flag.ExitOnError)
	prop := fs.String("prop", "", "")
	tier := fs.String("tier", "quick", "")
	seed := fs.Int64("seed", 1, "")
	i := fs.Int("i", 0, "")
	run := fs.Bool("run", false, "")
	fs.Parse(args)
	p := registry[*prop]
	if p == nil {
		return 2
	}
	cs := deriveSeed(*seed, p.ID, *i)
	sc := p.Gen(cs, *i, *tier)
	if sc == nil {
		fmt.Println("null")
		return 0
	}
	stampScenario(p, sc, cs)
	b, _ := json.MarshalIndent(sc, "", " ")
	fmt.Println(string(b))
	if *run {
		st := NewStats()
		vs := p.Run(sc, st)
		vb, _ := json.MarshalIndent(vs, "", " ")
		fmt.Println(string(vb))
		cb, _ := json.MarshalIndent(st.Counters, "", " ")
		fmt.Println(string(cb))
	}
	return 0
}

// runscMain executes one scenario file and prints its violations as JSON; used
// to evaluate candidates in a fresh process (race reports are de-duplicated
// per process by the detector, so in-process re-execution cannot see them again).
func runscMain(args []string) int {
	if len(args) < 1 {
		return 2
	}
	b, err := os.ReadFile(args[0])
	if err != nil {
		return 2
	}
	var sc Scenario
	if err := json.Unmarshal(b, &sc); err != nil {
		return 2
	}
	p := registry[sc.Prop]
	if p == nil {
		return 2
	}
	vs := p.Run(&sc, NewStats())
	out, _ := json.Marshal(vs)
	os.Stdout.Write(out)
	return 0
}

// raceEnv returns the environment a child needs for detector reports to be collected.
func raceEnv(tag string) []string {
	dir := filepath.Join(verifDir(), ".build", "out", "race")
	os.MkdirAll(dir, 0o755)
	rl := filepath.Join(dir, fmt.Sprintf("%s-%d", tag, os.Getpid()))
	matches, _ := filepath.Glob(rl + ".*")
	for _, m := range matches {
		os.Remove(m)
	}
	return append(os.Environ(), "GOMAXPROCS=4", "SIMKV_RACE_LOG="+rl, "GORACE=halt_on_error=0 exitcode=0 log_path="+rl)
}

// runInSubprocess evaluates a scenario in a fresh process of this binary.
func runInSubprocess(sc *Scenario) []Violation {
	self, _ := os.Executable()
	dir := filepath.Join(verifDir(), ".build", "out", "race")
	os.MkdirAll(dir, 0o755)
	f := filepath.Join(dir, fmt.Sprintf("cand-%d.json", os.Getpid()))
	b, _ := json.Marshal(sc)
	os.WriteFile(f, b, 0o644)
	defer os.Remove(f)
	c := exec.Command(self, "runsc", f)
	c.Env = raceEnv("cand")
	out, err := c.Output()
	if err != nil {
		return nil
	}
	var vs []Violation
	json.Unmarshal(out, &vs)
	return vs
}

// verifyReplay re-executes a written replay file in a fresh process and
// reports whether the same violation kind recurs.
func verifyReplay(path string) bool {
	self, _ := os.Executable()
	c := exec.Command(self, "replay", path)
	c.Env = raceEnv("verify")
	c.Run()
	return c.ProcessState != nil && c.ProcessState.ExitCode() == 1
}
