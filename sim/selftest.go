package main

import (
	"flag"
	"fmt"
	"os"
)

// selftestMain: gate for the harness itself (DESIGN.md §3.7).
//  1. token scheduler torture: 10^6 hand-offs among 16 goroutines; a counter
//     incremented only by the token holder (unsynchronised) must end exact and
//     the realised trace must be identical on repetition;
//  2. simulated storage contract: snapshot cursors, Seek/Next, Get of missing
//     keys, fault kinds;
//  3. replay determinism: a C19 scenario executed twice in-process gives the
//     same interleaving hash and results.
func selftestMain(args []string) int {
	fs := flag.NewFlagSet("selftest", flag.ExitOnError)
	fs.Bool("race", false, "informational")
	fs.Parse(args)
	fail := func(f string, a ...any) int {
		fmt.Fprintf(os.Stderr, "SELFTEST FAILED: "+f+"\n", a...)
		return 2
	}
	// 1. scheduler torture
	r := NewRng(42)
	n, per := 16, 62500
	sched := make([]int32, n*per)
	for i := range sched {
		if r.Chance(0.5) {
			sched[i] = int32(r.Intn(n))
		} else {
			sched[i] = -1
		}
	}
	ok1, h1 := schedTorture(n, per, sched)
	ok2, h2 := schedTorture(n, per, sched)
	if !ok1 || !ok2 {
		return fail("token scheduler lost or duplicated a hand-off (counter not exact)")
	}
	if h1 != h2 {
		return fail("token scheduler trace not reproducible: %x vs %x", h1, h2)
	}
	// 2a. the chunked copy-on-write store against a plain map: single and batched writes,
	// chunk splits and disappearing chunks, point reads, seeks, snapshots
	{
		rr := NewRng(12345)
		for round := 0; round < 60; round++ {
			universe := pick(rr, []int{45, 700, 3000})
			model := map[string]string{}
			var init []KV
			for j := 0; j < rr.Intn(universe); j++ {
				k := fmt.Sprintf("k%04d", rr.Intn(universe))
				init = append(init, KV{k, "i"})
				model[k] = "i"
			}
			a := NewCore(init, false)
			for step := 0; step < 12; step++ {
				old := a.snapshot()
				oldFlat := len(old.flat())
				m := rr.Intn(pick(rr, []int{3, 25, 900}))
				var ks, vs [][]byte
				for j := 0; j < m; j++ {
					ks = append(ks, []byte(fmt.Sprintf("k%04d", rr.Intn(universe+5))))
					vs = append(vs, []byte(fmt.Sprintf("v%d.%d", step, j)))
				}
				switch rr.Intn(4) {
				case 0:
					a.putMany(ks, vs)
					for j := range ks {
						model[string(ks[j])] = string(vs[j])
					}
				case 1:
					a.delMany(ks)
					for j := range ks {
						delete(model, string(ks[j]))
					}
				case 2:
					for j := range ks {
						a.put(ks[j], vs[j])
						model[string(ks[j])] = string(vs[j])
					}
				default:
					for j := range ks {
						a.del(ks[j])
						delete(model, string(ks[j]))
					}
				}
				da, corrupt := a.Dump()
				var want []KV
				for _, k := range sortedKeys(model) {
					want = append(want, KV{k, model[k]})
				}
				if !kvsEqual(da, want) || corrupt != 0 {
					return fail("simulated store differs from the map model after step %d: %s", step, diffKVs(da, want))
				}
				if a.snapshot().n != len(want) || len(old.flat()) != oldFlat {
					return fail("simulated store: pair count wrong or an old snapshot changed")
				}
				for _, ch := range a.snapshot().chunks {
					if len(ch) == 0 || len(ch) > maxChunk {
						return fail("simulated store: chunk of %d pairs", len(ch))
					}
				}
				probe := []byte(fmt.Sprintf("k%04d", rr.Intn(universe+5)))
				v, ok := a.get(probe)
				if mv, mok := model[string(probe)]; ok != mok || string(v) != mv {
					return fail("simulated store: get(%s) = %q,%v; model %q,%v", probe, v, ok, mv, mok)
				}
				ci, pi, _ := a.snapshot().find(probe)
				wantNext := ""
				for _, kv := range want {
					if kv.K >= string(probe) {
						wantNext = kv.K
						break
					}
				}
				gotNext := ""
				if ci < len(a.snapshot().chunks) {
					gotNext = string(a.snapshot().chunks[ci][pi].k)
				}
				if gotNext != wantNext {
					return fail("simulated store: seek(%s) lands on %q, model %q", probe, gotNext, wantNext)
				}
			}
		}
	}
	// 2. storage contract
	c := NewCore([]KV{{"a", "1"}, {"b", ""}, {"c", "3"}}, true)
	h := NewHandle(c, 0, []Fault{{Call: 9, Kind: FErr}}, false, "t")
	cur, _ := h.Cursor()
	h.Put([]byte("bb"), []byte("x")) // after the snapshot
	var got []string
	for {
		k, v, _ := cur.Next()
		if k == nil {
			break
		}
		got = append(got, string(k)+"="+string(v))
	}
	if fmt.Sprint(got) != "[a=1 b= c=3]" {
		return fail("cursor is not a snapshot positioned before the first key: %v", got)
	}
	if k, _, _ := cur.Next(); k != nil {
		return fail("Next after end-of-stream must keep returning end-of-stream")
	}
	if v, err := h.Get([]byte("zz")); v != nil || err != nil {
		return fail("Get of a missing key must be (nil, nil)")
	}
	if v, _ := h.Get([]byte("b")); v == nil || len(v) != 0 {
		return fail("Get of a stored empty value must be a non-nil empty slice")
	}
	if _, err := h.Get([]byte("a")); err == nil {
		return fail("fault plan did not fire at call #9 (calls so far %d)", len(h.log))
	}
	cur2, _ := h.Cursor()
	cur2.Seek([]byte("b0"))
	if k, _, _ := cur2.Next(); string(k) != "bb" {
		return fail("Seek must position at the first key >= target, got %q", k)
	}
	// 3. replay determinism of a concurrent scenario
	p := registry["C19"]
	sc := p.Gen(deriveSeed(7, "C19", 3), 3, "quick")
	a := runClients(sc, true)
	b := runClients(sc, true)
	if a.traceH != b.traceH || a.yields != b.yields {
		return fail("concurrent scenario is not reproducible: interleaving %x/%d vs %x/%d", a.traceH, a.yields, b.traceH, b.yields)
	}
	for ci := range a.res {
		for i := range a.res[ci] {
			if ok, why := stmtResEqual(&a.res[ci][i], &b.res[ci][i]); !ok {
				return fail("concurrent scenario results differ between two executions: %s", why)
			}
		}
	}
	if reps := newRaceReports(); len(reps) > 0 {
		return fail("race detector reports during self-test: %s", oneLine(reps[0], 600))
	}
	fmt.Printf("selftest ok: %d hand-offs x2 exact, trace %x; storage contract ok; concurrent replay identical (race=%v)\n", n*per, h1, raceEnabled)
	return 0
}

func dedupKVs(in []KV) []KV {
	m := map[string]string{}
	for _, kv := range in {
		m[kv.K] = kv.V
	}
	var out []KV
	for _, k := range sortedKeys(m) {
		out = append(out, KV{k, m[k]})
	}
	return out
}
