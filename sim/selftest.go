package main

func selftestMain(args []string) int { return 0 }
