package main

import (
	"fmt"
	"sort"
)

// C11 — DELETE removes exactly the pairs its WHERE (and LIMIT) selects.
// Histories (so that prior states are produced by the engine's own
// PUT/REMOVE/DELETE) against a model map; relational oracle: the engine's own
// unlimited `select * where P` in the reference configuration, sliced by the
// harness; separate faulted sub-check with a narrowed oracle.

func init() {
	register(&Prop{
		ID:    "C11",
		Level: "exploration",
		Rule:  "case = generated store + history of put/remove/delete statements; each `delete where P [limit s,n]` is judged against the engine's own `select * where P` (no LIMIT, row mode, cache off) executed on a copy of the prior state and sliced [s,s+n) by the harness: store afterwards must equal prior minus exactly those keys, byte for byte, with no Put/BatchPut issued. Then each delete is re-executed with single faults (every write call x {err, err-applied, err-partial}, plus sampled read calls) under the narrowed oracle deleted ⊆ selected, others untouched, nothing written, error surfaced. distinct_nontrivial counts distinct (plan-node chain, drain mode, limit class, selected-vs-batch class, fault kind) tuples of deletes whose reference select returned at least one key or whose plan reached storage. Rare families: scale (255..1100 pairs), big (3000..140000 pairs, batch sizes to 70000, limits beyond 65536, literal key sets of 1100/2100 keys), byte-keyed stores with byte literals, chains of up to 300 disjuncts with one guarded key, sibling-pair predicates (two atoms of one shape over literals differing in the last byte).",
		Assumptions: []string{
			"storage with snapshot cursors (DESIGN.md §3.3); eager and lazy snapshot variants both exercised",
			"the reference cell (row mode, cache off, unlimited select) is the engine's own; where row and batch unlimited selects disagree the case is counted as confounded and not judged here (C03's matter)",
			"the count row returned by DELETE is not asserted",
		},
		Real: "real: all of kvql from /repo's working tree; simulated: storage engine, caller, model map",
		NCases: func(tier string) int {
			if tier == "thorough" {
				return 6000000
			}
			return 40000
		},
		Gen:    genC11,
		Run:    runC11,
		Shrink: shrinkC11,
	})
}

func genLimit(r *Rng, batch, resultGuess int) (bool, int, int) {
	if r.Chance(0.4) {
		return false, 0, 0
	}
	cands := []int{0, 1, 2, batch - 1, batch, batch + 1, 2 * batch, 2*batch + 1, resultGuess, resultGuess + 2, 3}
	off := pick(r, cands)
	if off < 0 || r.Chance(0.35) {
		off = 0
	}
	cnt := pick(r, cands)
	if cnt < 0 {
		cnt = 0
	}
	if r.Chance(0.02) {
		cnt = pick(r, []int{2147483647, 2147483648, 9223372036854775807, 9223372036854775806})
	}
	return true, off, cnt
}

func genDeleteStmt(r *Rng, init []KV, batch int) HistStmt {
	g := newPredGen(r, init)
	h := HistStmt{Kind: "delete", Mode: genMode(r), Extra: genPollPattern(r), Pred: topPred(g)}
	h.HasLimit, h.Off, h.Cnt = genLimit(r, batch, len(init)/2)
	return h
}

func genC11(seed uint64, i int, tier string) *Scenario {
	r := NewRng(seed)
	if i%2003 == 11 {
		return genC11Big(r)
	}
	b := pickBatch(r)
	sc := &Scenario{Cfg: Config{Batch: b, Cache: r.Bool(), Alias: r.Chance(0.4), Lazy: r.Chance(0.4)}}
	// store sized relative to the batch: 0, <1, about 1, >1 batches
	mult := pick(r, []float64{0, 0.5, 1, 1, 2.2, 3.5})
	n := int(float64(b) * mult)
	if n > 110 {
		n = 110
	}
	if b <= 3 && r.Chance(0.5) {
		n += r.Range(2, 9)
	}
	sc.Init = genStore(r, n, pick(r, []string{StoreMixed, StoreInts, StoreText, StoreMixed, StoreInts, StoreText, StoreBytes}))
	if r.Chance(0.004) {
		sc.Cfg.Batch = pick(r, []int{64, 255, 256, 257, 1000})
		sc.Init = genStore(r, pick(r, []int{255, 256, 257, 300, 800, 1100}), pick(r, []string{StoreInts, StoreMixed}))
		sc.Family = "scale"
	}
	if r.Chance(0.15) {
		// the empty string is a legal key
		sc.Init = append([]KV{{"", pick(r, valuePoolText)}}, sc.Init...)
	}
	if r.Chance(0.3) {
		// empty values: a stored empty value is a value, not a missing pair
		for j := range sc.Init {
			if r.Chance(0.25) {
				sc.Init[j].V = ""
			}
		}
	}
	cur := append([]KV{}, sc.Init...)
	nst := pick(r, []int{1, 1, 2, 3, 5})
	for len(sc.Hist) < nst {
		switch r.Intn(10) {
		case 0:
			h := genPutStmt(r, false)
			sc.Hist = append(sc.Hist, h)
		case 1:
			h := genRemoveStmt(r, modelFromInit(cur), false)
			sc.Hist = append(sc.Hist, h)
		default:
			sc.Hist = append(sc.Hist, genDeleteStmt(r, cur, b))
		}
	}
	if r.Chance(0.08) && len(cur) >= 2 {
		// a key listed more than once, not adjacently, under a LIMIT that cuts the
		// result, at a batch size that puts a batch boundary between the mentions
		sc.Cfg.Batch = pick(r, []int{1, 1, 2})
		a, b2, c := cur[r.Intn(len(cur))].K, cur[r.Intn(len(cur))].K, cur[r.Intn(len(cur))].K
		lists := [][]string{{a, b2, a}, {a, b2, c, a}, {b2, a, c, b2, a}, {a, a, b2}, {c, a, b2, a, c}}
		ks := pick(r, lists)
		ok := true
		for _, k := range ks {
			if !isASCIIPlain(k) {
				ok = false
			}
		}
		if ok {
			h := HistStmt{Kind: "delete", Mode: genMode(r), Pred: "key in " + inList(ks), HasLimit: true, Off: pick(r, []int{0, 0, 1}), Cnt: r.Range(1, 3)}
			if r.Chance(0.3) {
				h.Pred += " & value != 'zzz'"
			}
			sc.Hist = append(sc.Hist, h)
		}
	}
	// a history always ends with a delete
	if sc.Hist[len(sc.Hist)-1].Kind != "delete" {
		sc.Hist = append(sc.Hist, genDeleteStmt(r, cur, b))
	}
	sc.Clients = []Client{{Stmts: histStmts(sc.Hist)}}
	return sc
}

// refSelect runs the engine's own unlimited select for pred on a copy of
// `prior` in the given mode with the cache off and returns the keys in order.
func refSelect(sc *Scenario, prior []KV, pred string, mode string, st *Stats) (keys []string, res StmtRes) {
	cfg := Config{Batch: sc.Cfg.Batch, Cache: false}
	setKnobs(cfg)
	w := NewWorld(prior, cfg, nil, "ref")
	res = execStmt(w.H, 0, Stmt{Text: "select * where " + pred, Mode: mode}, cfg)
	st.Evaluations++
	st.Steps += len(w.H.log)
	for _, row := range res.Rows {
		if len(row) > 0 {
			keys = append(keys, row[0])
		}
	}
	return
}

func sliceKeys(keys []string, has bool, off, cnt int) []string {
	if !has {
		return keys
	}
	if off >= len(keys) {
		return nil
	}
	end := off + cnt
	if end > len(keys) || end < off {
		end = len(keys)
	}
	return keys[off:end]
}

func limitClass(h *HistStmt, batch, nsel int) string {
	if !h.HasLimit {
		return "nolimit"
	}
	oc := "off0"
	switch {
	case h.Off == 0:
	case h.Off >= nsel:
		oc = "off>=R"
	case batch > 0 && h.Off%batch == 0:
		oc = "off=kB"
	default:
		oc = "off<R"
	}
	cc := "cnt<R"
	switch {
	case h.Cnt == 0:
		cc = "cnt0"
	case h.Off+h.Cnt >= nsel || h.Off+h.Cnt < h.Off:
		cc = "cnt>=rest"
	case batch > 0 && h.Cnt%batch == 0:
		cc = "cnt=kB"
	}
	return oc + "," + cc
}

func sizeClass(n, batch int) string {
	switch {
	case n == 0:
		return "R=0"
	case n < batch:
		return "R<B"
	case n == batch:
		return "R=B"
	case n <= 2*batch:
		return "R<=2B"
	}
	return "R>2B"
}

// judgeDelete checks one fault-free delete that has just been executed in w.
func judgeDelete(prop string, sc *Scenario, w *World, si int, h *HistStmt, r *StmtRes, prior []KV, st *Stats) (vs []Violation, sel []string, stop bool) {
	text := h.Render()
	sigBase := fmt.Sprintf("stmt=delete mode=%s plan=%s", h.Mode, planShape(r.Explain))
	add := func(kind, detail, sig string) {
		vs = append(vs, Violation{Prop: prop, Kind: kind, Detail: detail + " | statement #" + fmt.Sprint(si) + ": " + text, Sig: sigBase + " " + sig})
	}
	if r.BuildErr != "" {
		st.Inc("delete_rejected")
		return nil, nil, true
	}
	rowKeys, rres := refSelect(sc, prior, h.Pred, ModeRow, st)
	batKeys, bres := refSelect(sc, prior, h.Pred, ModeBatch, st)
	setKnobs(sc.Cfg)
	if rres.Failed() || bres.Failed() {
		st.Inc("reference_select_failed")
		return nil, nil, true
	}
	if fmt.Sprint(rowKeys) != fmt.Sprint(batKeys) {
		st.Inc("confounded")
		return nil, nil, true
	}
	sel = sliceKeys(rowKeys, h.HasLimit, h.Off, h.Cnt)
	lc := limitClass(h, sc.Cfg.Batch, len(rowKeys))
	sig := fmt.Sprintf("limit=%s size=%s", lc, sizeClass(len(rowKeys), sc.Cfg.Batch))
	if r.StepCap {
		add("no-termination", "DELETE did not terminate against a finite store", sig)
		return vs, sel, true
	}
	if r.Panic != "" || r.Err != "" {
		add("delete-failed", fmt.Sprintf("DELETE failed (%s%s) although the reference select of its predicate completed", r.Err, r.Panic), sig)
		return vs, sel, true
	}
	selSet := map[string]bool{}
	for _, k := range sel {
		selSet[k] = true
	}
	var want []KV
	for _, kv := range prior {
		if !selSet[canon(kv.K)] {
			want = append(want, kv)
		}
	}
	dump, corrupt := w.Core.Dump()
	if corrupt > 0 {
		add("engine-bytes-modified", fmt.Sprintf("%d stored pair(s) were modified in place through storage-owned slices", corrupt), sig)
	}
	if !kvsEqual(dump, want) {
		add("store-differs", fmt.Sprintf("store after DELETE is not prior minus the %d selected key(s) (reference select returned %d): %s", len(sel), len(rowKeys), diffKVs(dump, want)), sig)
		stop = true
	}
	for _, e := range w.H.log[r.EvFrom:r.EvTo] {
		if e.Op == OpPut || e.Op == OpBPut {
			add("delete-writes", fmt.Sprintf("DELETE issued %s %s%v", e.Op, e.Key, e.Keys), sig)
			break
		}
	}
	for pi := r.NDrain; pi < len(r.Polls); pi++ {
		for _, e := range w.H.log[r.EvFrom:r.EvTo] {
			if e.Poll == pi && isMutating(e.Op) {
				add("write-on-later-poll", fmt.Sprintf("poll #%d after completion issued %s", pi, e.Op), sig)
			}
		}
	}
	if len(rowKeys) > 0 || r.EvTo > r.EvFrom {
		st.Seen(sigBase + " " + sig)
	}
	st.Inc("deletes_judged")
	if h.HasLimit {
		st.Inc("deletes_with_limit")
	}
	return vs, sel, stop
}

func runC11(sc *Scenario, st *Stats) []Violation {
	var vs []Violation
	setKnobs(sc.Cfg)
	w := NewWorld(sc.Init, sc.Cfg, nil, fmt.Sprintf("%x", sc.Seed&0xffffff))
	model := modelFromInit(sc.Init)
	var rs []StmtRes
	type delInfo struct {
		si    int
		prior []KV
		sel   []string
	}
	var dels []delInfo
	for si := range sc.Hist {
		h := &sc.Hist[si]
		prior, _ := w.Core.Dump()
		r := execStmt(w.H, si, h.Stmt(), sc.Cfg)
		rs = append(rs, r)
		if h.Kind == "delete" {
			dv, sel, stop := judgeDelete("C11", sc, w, si, h, &r, prior, st)
			vs = append(vs, dv...)
			if stop {
				break
			}
			dels = append(dels, delInfo{si, prior, sel})
			d, _ := w.Core.Dump()
			model = modelFromInit(d)
			continue
		}
		pv, stop := checkPutRemoveStmt("C11", w, si, h, &r, model, st)
		_ = pv // put/remove correctness is C12's business; here they only build state
		if stop {
			break
		}
	}
	st.noteRun(w, rs)
	st.Sample(map[string]any{"store_pairs": len(sc.Init), "batch": sc.Cfg.Batch, "lazy_snapshot": sc.Cfg.Lazy, "history": textsOf(sc.Hist)}, 3)
	if len(vs) > 0 {
		return vs
	}
	// --- faulted sub-check ---------------------------------------------------
	base := w.H.log
	r := NewRng(sc.Seed ^ 0xfa17)
	for _, d := range dels {
		var cands []Fault
		var reads []int
		nb := 0
		for _, e := range base {
			if e.Stmt != d.si {
				continue
			}
			if isMutating(e.Op) {
				nb++
				cands = append(cands, Fault{Call: e.Seq, Kind: FErr}, Fault{Call: e.Seq, Kind: FApplied})
				if e.Op == OpBDel && len(e.Keys) > 0 {
					cands = append(cands, Fault{Call: e.Seq, Kind: FPartial, Part: len(e.Keys) / 2})
					if len(e.Keys) > 1 {
						cands = append(cands, Fault{Call: e.Seq, Kind: FPartial, Part: len(e.Keys) - 1})
					}
				}
				// the read right after a write: in-flight state
				if e.Seq+1 < len(base) && base[e.Seq+1].Stmt == d.si {
					cands = append(cands, Fault{Call: e.Seq + 1, Kind: FErr})
				}
			} else {
				reads = append(reads, e.Seq)
			}
		}
		for k := 0; k < 3 && len(reads) > 0; k++ {
			cands = append(cands, Fault{Call: reads[r.Intn(len(reads))], Kind: FErr})
		}
		if len(cands) > 16 && len(sc.Init) > 250 {
			// scale cases: a sample of the candidates (first, last, and evenly spaced ones)
			step := len(cands) / 12
			var pickd []Fault
			for i, f := range cands {
				if i < 3 || i >= len(cands)-3 || i%step == 0 {
					pickd = append(pickd, f)
				}
			}
			cands = pickd
		}
		if len(sc.Faults) > 0 {
			cands = sc.Faults
		}
		for _, f := range cands {
			if f.Call >= len(base) || base[f.Call].Stmt != d.si {
				continue
			}
			fv := runC11Fault(sc, f, d.si, d.prior, d.sel, st)
			for i := range fv {
				if len(sc.Faults) == 0 {
					c := *sc // shared, not copied: nothing mutates a scenario
					c.Faults = []Fault{f}
					fv[i].Pinned = &c
				}
			}
			vs = append(vs, fv...)
		}
	}
	return vs
}

func runC11Fault(sc *Scenario, f Fault, si int, prior []KV, sel []string, st *Stats) []Violation {
	var vs []Violation
	setKnobs(sc.Cfg)
	w := NewWorld(sc.Init, sc.Cfg, []Fault{f}, fmt.Sprintf("%x", sc.Seed&0xffffff))
	var rs []StmtRes
	for i := 0; i <= si; i++ {
		h := &sc.Hist[i]
		r := execStmt(w.H, i, h.Stmt(), sc.Cfg)
		rs = append(rs, r)
		if i < si {
			continue
		}
		if len(w.H.fired) == 0 {
			st.Inc("fault_not_reached")
			break
		}
		ev := w.H.log[f.Call]
		sig := fmt.Sprintf("stmt=delete mode=%s plan=%s op=%s fault=%s", h.Mode, planShape(r.Explain), ev.Op, f.Kind)
		add := func(kind, detail string) {
			vs = append(vs, Violation{Prop: "C11", Kind: kind, Detail: fmt.Sprintf("fault %s(part=%d) on %s call #%d: %s | statement #%d: %s", f.Kind, f.Part, ev.Op, f.Call, detail, si, h.Render()), Sig: sig})
		}
		st.Seen("fault|" + sig)
		selSet := map[string]bool{}
		for _, k := range sel {
			selSet[k] = true
		}
		dump, _ := w.Core.Dump()
		dm := modelFromInit(dump)
		var bad []string
		for _, kv := range prior {
			v, ok := dm[kv.K]
			if !ok {
				if !selSet[canon(kv.K)] {
					bad = append(bad, fmt.Sprintf("%q deleted but not selected", kv.K))
				}
			} else if v != kv.V {
				bad = append(bad, fmt.Sprintf("%q changed value", kv.K))
			}
			delete(dm, kv.K)
		}
		for k := range dm {
			bad = append(bad, fmt.Sprintf("%q appeared", k))
		}
		sort.Strings(bad)
		if len(bad) > 0 {
			if len(bad) > 5 {
				bad = bad[:5]
			}
			add("fault-deleted-unselected", fmt.Sprint(bad))
		}
		for _, e := range w.H.log[r.EvFrom:r.EvTo] {
			if e.Op == OpPut || e.Op == OpBPut {
				add("delete-writes", "DELETE issued "+e.Op)
				break
			}
		}
		if r.Err == "" && r.BuildErr == "" && r.Panic == "" {
			add("fault-swallowed", "the storage call failed but DELETE reported success")
		} else if r.Panic != "" {
			add("fault-panic", r.Panic)
		} else if !isFaultErr(r.ErrObj, ev.Err) {
			add("fault-error-replaced", fmt.Sprintf("caller received %q", oneLine(r.Err+r.BuildErr, 80)))
		}
	}
	st.noteRun(w, rs)
	return vs
}

func shrinkC11(sc *Scenario) []*Scenario {
	out := shrinkHist(sc)
	fix := func(c *Scenario) *Scenario {
		c.Clients = []Client{{Stmts: histStmts(c.Hist)}}
		return c
	}
	for i := range sc.Hist {
		h := sc.Hist[i]
		if h.Kind != "delete" || !h.HasLimit {
			continue
		}
		if h.Off > 0 {
			c := cloneScenario(sc)
			c.Hist[i].Off = h.Off - 1
			out = append(out, fix(c))
			c = cloneScenario(sc)
			c.Hist[i].Off = 0
			out = append(out, fix(c))
		}
		if h.Cnt > 0 {
			c := cloneScenario(sc)
			c.Hist[i].Cnt = h.Cnt - 1
			out = append(out, fix(c))
		}
		c := cloneScenario(sc)
		c.Hist[i].HasLimit = false
		out = append(out, fix(c))
	}
	return out
}
