package main

import (
	"fmt"
	"sort"
	"strings"
)

// C03 — row-at-a-time and batch iteration give the same result at any batch
// size. Two executions of the same scenario differing only in drain mode.

func init() {
	register(&Prop{
		ID:    "C03",
		Level: "exploration",
		Rule:  "case = (statement from the typed generator over the full language — scalar functions, aggregates, aliases, list/JSON indexing, IN, BETWEEN, ORDER BY, GROUP BY, LIMIT, PUT/REMOVE/DELETE; feature families switched per run — , generated store of 0..4 batches, batch size, cache switch). Each case is executed twice on equal simulated stores, once drained with Next and once with Batch; rows are compared by content in order (multiset inside ORDER BY tie runs), write statements by final store. Row error with batch success, a panic or non-termination in one mode only, and any content difference are violations; batch-only error values are tolerated and counted. distinct_nontrivial counts distinct (plan-node chain, batch size, number of row polls, number of batch polls) among cases accepted by the planner that completed in at least one mode. Rare families stretch the envelope: scale (stores of 255..1500 pairs, batch 64..1000), big (3000..140000 pairs, batch sizes to 70000, offsets beyond 65536, as many groups as rows), longlist (IN lists of 300..4200 literals), pin and pred-bytes (key-pinning clauses and predicate trees over byte-level alphabets: keys and literals that are not UTF-8, prefixes ending in 0xFF).",
		Assumptions: []string{
			"a batch-mode error where row mode completes is tolerated (vectorised evaluation cannot short-circuit & and |): the property allows this direction",
			"quantile() is compared exactly: the sketch is a deterministic function of the values in scan order, which both modes share",
			"substr arguments are kept in the range that cannot panic; ORDER BY is generated only over fields with a uniform dynamic type",
		},
		Real: "real: all of kvql from /repo's working tree; simulated: storage engine, caller",
		NCases: func(tier string) int {
			if tier == "thorough" {
				return 60000000
			}
			return 400000
		},
		Gen:    genC03,
		Run:    runC03,
		Shrink: shrinkC03,
	})
}

func genStoreFor(r *Rng, batch int, style string) []KV {
	mult := pick(r, []float64{0, 0.5, 1, 1, 1.5, 2.5, 4})
	n := int(float64(batch) * mult)
	if batch <= 3 {
		n += r.Intn(6)
	}
	if n > 100 {
		n = 100
	}
	return genStore(r, n, style)
}

func genC03(seed uint64, i int, tier string) *Scenario {
	r := NewRng(seed)
	if i%20011 == 19 {
		return genC03Big(r)
	}
	if i%211 == 5 {
		return genC03Extra(r, i)
	}
	style := pick(r, []string{StoreMixed, StoreInts, StoreNum, StoreText, StoreJSON, StoreMixed, StoreCollide, StoreUnicode, StoreBytes})
	g := newGen(r, style)
	if r.Chance(0.05) {
		g.keyListWhere = r.Range(1, 2)
	}
	b := pickBatch(r)
	sc := &Scenario{Cfg: Config{Batch: b, Cache: r.Bool(), Alias: r.Chance(0.3), Lazy: r.Chance(0.3)}}
	sc.Init = genStoreFor(r, b, style)
	if r.Chance(0.004) {
		// scale: sizes around the powers of two an 8- or 10-bit counter would overflow at, large batches
		sc.Cfg.Batch = pick(r, []int{64, 100, 255, 256, 257, 1000})
		sc.Init = genStore(r, pick(r, []int{255, 256, 257, 300, 700, 1030, 1500}), pick(r, []string{StoreInts, StoreMixed, StoreText}))
		sc.Family = "scale"
	}
	var text string
	switch r.Intn(12) {
	case 0:
		text = g.PutText()
	case 1:
		text = g.RemoveText()
	case 2:
		q := g.DeleteStmt()
		sc.Q = q
		text = q.Render(false)
	default:
		q := g.Select(false)
		sc.Q = q
		text = q.Render(false)
	}
	sc.Clients = []Client{{Stmts: []Stmt{{Text: text}}}}
	return sc
}

// splitTieRuns compares two ordered results allowing any order inside runs
// of rows that tie on the ORDER BY columns.
func equalModuloTies(a, b [][]string, orderCols []int) (bool, string) {
	if len(a) != len(b) {
		return false, fmt.Sprintf("%d rows vs %d rows", len(a), len(b))
	}
	if len(orderCols) == 0 {
		for i := range a {
			if !rowEqual(a[i], b[i]) {
				return false, fmt.Sprintf("row %d: [%s] vs [%s]", i, rowStr(a[i]), rowStr(b[i]))
			}
		}
		return true, ""
	}
	keyOf := func(row []string) string {
		parts := make([]string, len(orderCols))
		for i, c := range orderCols {
			if c < len(row) {
				parts[i] = row[c]
			}
		}
		return strings.Join(parts, "\x00")
	}
	i := 0
	for i < len(a) {
		if keyOf(a[i]) != keyOf(b[i]) {
			return false, fmt.Sprintf("row %d: ORDER BY key %q vs %q", i, keyOf(a[i]), keyOf(b[i]))
		}
		j := i
		for j < len(a) && keyOf(a[j]) == keyOf(a[i]) {
			j++
		}
		ra, rb := make([]string, 0, j-i), make([]string, 0, j-i)
		for k := i; k < j; k++ {
			ra = append(ra, rowStr(a[k]))
			rb = append(rb, rowStr(b[k]))
		}
		sort.Strings(ra)
		sort.Strings(rb)
		for k := range ra {
			if ra[k] != rb[k] {
				return false, fmt.Sprintf("tie run at row %d differs: [%s] vs [%s]", i, ra[k], rb[k])
			}
		}
		i = j
	}
	return true, ""
}

func orderColsOf(q *GSelect) []int {
	if q == nil {
		return nil
	}
	var out []int
	for _, o := range q.Order {
		out = append(out, o.Field)
	}
	return out
}

// blankErr removes literals and positions from an error text.
func blankErr(s string) string {
	var sb strings.Builder
	inq := byte(0)
	for i := 0; i < len(s); i++ {
		c := s[i]
		switch {
		case inq != 0:
			if c == inq {
				inq = 0
			}
		case c == '\'' || c == '"' || c == '`':
			inq = c
			sb.WriteByte('_')
		case c >= '0' && c <= '9':
			if sb.Len() == 0 || sb.String()[sb.Len()-1] != '#' {
				sb.WriteByte('#')
			}
		default:
			sb.WriteByte(c)
		}
	}
	out := sb.String()
	if len(out) > 90 {
		out = out[:90]
	}
	return out
}

func panicSite(p string) string {
	if i := strings.Index(p, " @ "); i >= 0 {
		site := p[i+3:]
		if j := strings.LastIndex(site, "/"); j >= 0 {
			site = site[j+1:]
		}
		msg := blankErr(p[:i])
		return msg + " @ " + site
	}
	return blankErr(p)
}

func runC03(sc *Scenario, st *Stats) []Violation {
	text := sc.Clients[0].Stmts[0].Text
	if sc.Q != nil {
		text = sc.Q.Render(false)
	}
	wr, rr := runStmts(sc, sc.Cfg, []Stmt{{Text: text, Mode: ModeRow}}, nil)
	st.noteRun(wr, rr)
	wb, rb := runStmts(sc, sc.Cfg, []Stmt{{Text: text, Mode: ModeBatch}}, nil)
	st.noteRun(wb, rb)
	R, B := rr[0], rb[0]
	if R.BuildErr != "" && B.BuildErr != "" {
		st.Inc("rejected")
		return nil
	}
	st.Inc("accepted")
	st.Inc("kind:" + stmtKind(text))
	noteLanguageFeatures(st, text)
	shape := planShape(R.Explain)
	cell := fmt.Sprintf("cache=%v", sc.Cfg.Cache)
	mk := func(kind, detail, extra string) []Violation {
		return []Violation{{Prop: "C03", Kind: kind,
			Detail: fmt.Sprintf("%s | batch size %d, %s, %d pairs | statement: %s", detail, sc.Cfg.Batch, cell, len(sc.Init), text),
			Sig:    fmt.Sprintf("plan=%s %s %s", shape, cell, extra)}}
	}
	ro, bo := R.Outcome(), B.Outcome()
	if ro == "ok" || bo == "ok" {
		st.Seen(fmt.Sprintf("%s|B=%d|%d|%d", shape, sc.Cfg.Batch, len(R.Polls), len(B.Polls)))
		st.Sample(map[string]any{"statement": text, "batch": sc.Cfg.Batch, "cache": sc.Cfg.Cache, "store_pairs": len(sc.Init), "row_outcome": ro, "batch_outcome": bo, "rows": len(R.Rows)}, 4)
	}
	switch {
	case ro == "ok" && bo == "ok":
		if stmtKind(text) != "select" {
			dr, _ := wr.Core.Dump()
			db, _ := wb.Core.Dump()
			if !kvsEqual(dr, db) {
				return mk("store-differs", "final store differs between row and batch draining: "+diffKVs(db, dr), "write")
			}
			// how the writes are grouped into storage calls may legitimately differ
			// between the two drain modes; only the effect is compared
			mr, mb := writeCallsOf(wr.H.log, 0), writeCallsOf(wb.H.log, 0)
			if fmt.Sprint(eventsBrief(mr)) != fmt.Sprint(eventsBrief(mb)) {
				st.Inc("write_call_grouping_differs_between_modes")
			}
		}
		if ok, why := equalModuloTies(R.Rows, B.Rows, orderColsOf(sc.Q)); !ok {
			return mk("rows-differ", "row mode and batch mode return different rows (row vs batch): "+why, "")
		}
		st.Inc("agree_ok")
	case bo == "ok" && ro == "error":
		return mk("row-error/batch-ok", "batch iteration completed ("+fmt.Sprint(len(B.Rows))+" rows) but row iteration returned an error: "+oneLine(R.Err, 160), "err="+blankErr(R.Err))
	case bo == "ok" && ro == "builderr":
		return mk("row-error/batch-ok", "plan building differed between two runs: "+R.BuildErr, "build")
	case ro == "ok" && bo == "error":
		st.Inc("tolerated_batch_error_row_ok")
	case ro == "panic" && bo != "panic":
		return mk("row-panic", fmt.Sprintf("row iteration panicked (%s) while batch iteration ended with %s", R.Panic, bo), "panic="+panicSite(R.Panic))
	case bo == "panic" && ro != "panic":
		return mk("batch-panic", fmt.Sprintf("batch iteration panicked (%s) while row iteration ended with %s", B.Panic, ro), "panic="+panicSite(B.Panic))
	case ro == "stepcap" && bo != "stepcap":
		return mk("row-no-termination", "row iteration did not terminate while batch iteration ended with "+bo, "")
	case bo == "stepcap" && ro != "stepcap":
		return mk("batch-no-termination", "batch iteration did not terminate while row iteration ended with "+ro, "")
	default:
		st.Inc("agree_fail")
	}
	return nil
}

func eventsBrief(es []Event) []string {
	out := make([]string, len(es))
	for i, e := range es {
		out[i] = e.Op + ":" + e.Key + strings.Join(e.Keys, ",") + "=" + strings.Join(e.Vals, ",")
	}
	return out
}

// --- shrinking over the statement AST ----------------------------------------

func shrinkC03(sc *Scenario) []*Scenario {
	var out []*Scenario
	out = append(out, shrinkInit(sc)...)
	out = append(out, shrinkQuery(sc)...)
	out = append(out, shrinkConfig(sc)...)
	return out
}

func leafOf(t GType) *GExpr {
	switch t {
	case TS:
		return &GExpr{Kind: "key", T: TS}
	case TN:
		return ilit(1)
	case TB:
		return bin(TB, "!=", &GExpr{Kind: "key", T: TS}, lit("~"))
	case TL:
		return call(TL, "split", &GExpr{Kind: "value", T: TS}, lit(","))
	}
	return call(TJ, "json", &GExpr{Kind: "value", T: TS})
}

// exprVariants proposes simpler replacements of e (same static type).
func exprVariants(e *GExpr) []*GExpr {
	var out []*GExpr
	// replace by a child of the same type
	for _, a := range e.Args {
		if a.T == e.T {
			out = append(out, a)
		}
	}
	if e.Kind != "key" && e.Kind != "value" && e.Kind != "str" && e.Kind != "int" && e.Kind != "alias" {
		out = append(out, leafOf(e.T))
	}
	// recurse
	for i, a := range e.Args {
		for _, v := range exprVariants(a) {
			c := *e
			c.Args = append([]*GExpr{}, e.Args...)
			c.Args[i] = v
			out = append(out, &c)
		}
	}
	return out
}

func shrinkQuery(sc *Scenario) []*Scenario {
	q := sc.Q
	if q == nil {
		return nil
	}
	var out []*Scenario
	mod := func(f func(nq *GSelect) bool) {
		c := cloneScenario(sc)
		if f(c.Q) {
			c.Clients[0].Stmts[0].Text = c.Q.Render(false)
			out = append(out, c)
		}
	}
	if q.HasLimit {
		mod(func(n *GSelect) bool { n.HasLimit = false; return true })
		if q.Off > 0 {
			mod(func(n *GSelect) bool { n.Off = 0; return true })
		}
	}
	for i := range q.Order {
		i := i
		mod(func(n *GSelect) bool {
			n.Order = append(append([]GOrder{}, n.Order[:i]...), n.Order[i+1:]...)
			return true
		})
	}
	// drop a field that nothing refers to
	for i := range q.Fields {
		i := i
		if len(q.Fields) <= 1 {
			break
		}
		mod(func(n *GSelect) bool {
			f := n.Fields[i]
			if f.Alias != "" {
				if n.Where.countAlias(f.Alias) > 0 {
					return false
				}
				for j, o := range n.Fields {
					if j != i && o.E.countAlias(f.Alias) > 0 {
						return false
					}
				}
			}
			for _, o := range n.Order {
				if o.Field == i {
					return false
				}
			}
			for _, g := range n.Group {
				if g == i {
					return false
				}
			}
			n.Fields = append(append([]GField{}, n.Fields[:i]...), n.Fields[i+1:]...)
			for k := range n.Order {
				if n.Order[k].Field > i {
					n.Order[k].Field--
				}
			}
			for k := range n.Group {
				if n.Group[k] > i {
					n.Group[k]--
				}
			}
			return true
		})
	}
	// simplify WHERE
	for _, v := range exprVariants(q.Where) {
		v := v
		mod(func(n *GSelect) bool { n.Where = v; return true })
	}
	// simplify field expressions
	for i := range q.Fields {
		if q.Fields[i].Agg {
			continue
		}
		for _, v := range exprVariants(q.Fields[i].E) {
			i, v := i, v
			mod(func(n *GSelect) bool { n.Fields[i].E = v; return true })
		}
	}
	if len(out) > 120 {
		out = out[:120]
	}
	return out
}

var languageFunctions = []string{"lower", "upper", "int", "float", "str", "is_int", "is_float", "substr", "json", "split",
	"list", "float_list", "int_list", "flist", "ilist", "len", "join", "strlen", "cosine_distance", "l2_distance",
	"count", "sum", "avg", "min", "max", "json_arrayagg", "group_concat", "quantile"}

var languageKeywords = []string{" between ", " in ", " ^= ", " ~= ", " order by ", " group by ", " limit ", " as ", "!(", " | ", " & ", " and ", " or ", " / ", " * ", " - ", " + "}

// noteLanguageFeatures counts which functions and operators occur in accepted
// statements (reach of the generator, reported in the evidence).
func noteLanguageFeatures(st *Stats, text string) {
	for _, f := range languageFunctions {
		if containsCall(text, f) {
			st.Inc("fn:" + f)
		}
	}
	for _, k := range languageKeywords {
		if strings.Contains(text, k) {
			st.Inc("op:" + strings.TrimSpace(k))
		}
	}
}

func containsCall(text, name string) bool {
	for i := 0; i+len(name) < len(text); i++ {
		if text[i:i+len(name)] == name && text[i+len(name)] == '(' && (i == 0 || !isIdent(text[i-1])) {
			return true
		}
	}
	return false
}
