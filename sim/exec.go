package main

import (
	"errors"
	"fmt"
	"runtime/debug"
	"strings"

	"github.com/c4pt0r/kvql"
)

// ---------------------------------------------------------------------------
// Scenario: everything that decides one simulated execution. Executing a
// scenario is a pure function of the scenario and the code under test.
// ---------------------------------------------------------------------------

type Config struct {
	Batch int  `json:"batch"`
	Cache bool `json:"cache"`
	Alias bool `json:"alias,omitempty"` // storage hands out engine-owned slices
	Lazy  bool `json:"lazy,omitempty"`  // cursor snapshot taken at first Seek/Next
	Bind  bool `json:"bind,omitempty"`  // bind the query text to returned errors before rendering them (README usage)
	// ClearCtx: the caller calls ctx.Clear() after every poll, as the loop in
	// examples/memkv does (the other half of the scenarios do not)
	ClearCtx bool `json:"clear_ctx,omitempty"`
}

type Stmt struct {
	Text  string   `json:"text"`
	Mode  string   `json:"mode"`            // "row" or "batch": how the plan is drained
	Extra []string `json:"extra,omitempty"` // polls issued after the drain completed: "next"/"batch"
	Note  string   `json:"note,omitempty"`
	// PollAfterErr: issue the Extra polls even when the drain ended with an error
	// (used only where a property speaks about polls after a failed write).
	PollAfterErr bool `json:"poll_after_err,omitempty"`
	// KeepGoing: a caller that logs a failed poll and polls on; up to this many
	// errors are recorded as marker rows and the drain continues.
	KeepGoing int `json:"keep_going,omitempty"`
}

type Client struct {
	// ID is the client's identity (key prefix c<ID>_, private store); it stays
	// the same when the shrinker drops other clients.
	ID    int    `json:"id"`
	Stmts []Stmt `json:"stmts"`
}

type Scenario struct {
	Prop       string     `json:"prop"`
	Family     string     `json:"family,omitempty"`
	Seed       uint64     `json:"seed"`
	Cfg        Config     `json:"config"`
	Init       []KV       `json:"init"`
	Clients    []Client   `json:"clients"`
	Hist       []HistStmt `json:"hist,omitempty"`          // history with intended effects (C11/C12); Clients[0] is derived from it
	L          *LimitCase `json:"limit_case,omitempty"`    // C08 grid point
	K          *PinCase   `json:"pin_case,omitempty"`      // C18 key-pinning clause
	Q          *GSelect   `json:"query,omitempty"`         // generator AST of the statement (C03/C05), used by the shrinker
	CFaults    [][]Fault  `json:"client_faults,omitempty"` // C19: per-client fault plans (indexed by the client's own call sequence)
	OneStorage bool       `json:"one_storage,omitempty"`   // C19: all clients pass the same Storage value to the library
	HookSites  []string   `json:"hook_sites,omitempty"`    // C19: library-internal yield sites enabled in this run
	HookPerMil int        `json:"hook_permille,omitempty"` // C19: probability (in 1/1000) of a context switch at an enabled site
	Faults     []Fault    `json:"faults,omitempty"`
	Schedule   []int      `json:"schedule,omitempty"`
	// CSched[i][k]: the ID of the client that runs after client i's k-th storage
	// call (-1: keep running). Per-client, so that it keeps its meaning when the
	// shrinker removes other clients.
	CSched   [][]int        `json:"client_schedules,omitempty"`
	Topology string         `json:"topology,omitempty"`
	P        map[string]any `json:"params,omitempty"` // oracle parameters, property specific
}

const (
	ModeRow   = "row"
	ModeBatch = "batch"
)

// ---------------------------------------------------------------------------
// Results
// ---------------------------------------------------------------------------

type PollRes struct {
	Kind   string     `json:"kind"`
	NRows  int        `json:"nrows"`
	Err    string     `json:"err,omitempty"`
	Panic  string     `json:"panic,omitempty"`
	Calls  int        `json:"calls"`            // storage calls issued during this poll
	RowErr bool       `json:"rowerr,omitempty"` // returned rows together with an error
	Rows   [][]string `json:"-"`
}

type StmtRes struct {
	Text       string
	Mode       string
	BuildErr   string
	BuildPanic string
	Explain    []string
	Fields     []string
	Polls      []PollRes // drain polls followed by extra polls
	NDrain     int       // number of polls that belong to the drain
	Rows       [][]string
	Err        string // first error seen while draining ("" if none)
	ErrObj     error
	Panic      string // first panic seen (build or drain)
	StepCap    bool
	EvFrom     int // this statement's events are h.log[EvFrom:EvTo]
	EvTo       int
	Completed  bool // drained to end-of-stream without error/panic
	CacheHits  int  // ExecuteCtx.Hit after the drain
}

func (r *StmtRes) Failed() bool { return r.BuildErr != "" || r.Err != "" || r.Panic != "" || r.StepCap }

// Outcome is a one-word classification used by relational oracles.
func (r *StmtRes) Outcome() string {
	switch {
	case r.StepCap:
		return "stepcap"
	case r.Panic != "":
		return "panic"
	case r.BuildErr != "":
		return "builderr"
	case r.Err != "":
		return "error"
	}
	return "ok"
}

// maxPolls bounds one drain: stores hold at most a few hundred pairs, so a
// drain that has not reached end-of-stream after this many polls will not.
const maxPolls = 600

func panicText(p any) string {
	s := fmt.Sprint(p)
	st := string(debug.Stack())
	// keep the first kvql frame for diagnosis
	for _, ln := range strings.Split(st, "\n") {
		if strings.Contains(ln, "/repo/") || strings.Contains(ln, "kvql@") {
			return s + " @ " + strings.TrimSpace(ln)
		}
	}
	return s
}

// execStmt builds and drains one statement through handle h.
func execStmt(h *Handle, idx int, st Stmt, cfg Config) (res StmtRes) {
	res.Text = st.Text
	res.Mode = st.Mode
	res.EvFrom = len(h.log)
	defer func() { res.EvTo = len(h.log) }()
	h.stmt = idx
	h.poll = -1

	var plan kvql.FinalPlan
	func() {
		defer func() {
			if p := recover(); p != nil {
				if _, ok := p.(stepCapPanic); ok {
					res.StepCap = true
					return
				}
				res.BuildPanic = panicText(p)
				res.Panic = res.BuildPanic
			}
		}()
		opt := kvql.NewOptimizer(st.Text)
		var err error
		var store kvql.Storage = h
		if h.front != nil {
			store = h.front
		}
		plan, err = opt.BuildPlan(store)
		if err != nil {
			if qb, ok := err.(kvql.QueryBinder); ok && cfg.Bind {
				qb.BindQuery(st.Text)
			}
			res.BuildErr = errText(err)
			res.ErrObj = err
			plan = nil
		}
	}()
	if plan == nil || res.StepCap || res.Panic != "" {
		return
	}
	func() {
		defer func() {
			if p := recover(); p != nil {
				res.Panic = "explain: " + panicText(p)
			}
		}()
		res.Explain = plan.Explain()
		res.Fields = plan.FieldNameList()
	}()
	if res.Panic != "" {
		return
	}

	ctx := kvql.NewExecuteCtx()
	ctx.EnableCache = cfg.Cache

	poll := func(kind string) (pr PollRes, end bool) {
		pr.Kind = kind
		h.poll = len(res.Polls)
		before := len(h.log)
		defer func() {
			pr.Calls = len(h.log) - before
			if p := recover(); p != nil {
				if _, ok := p.(stepCapPanic); ok {
					res.StepCap = true
				} else {
					pr.Panic = panicText(p)
				}
				end = true
			}
		}()
		if kind == "next" {
			row, err := plan.Next(ctx)
			if err != nil {
				if qb, ok := err.(kvql.QueryBinder); ok && cfg.Bind {
					qb.BindQuery(st.Text)
				}
				pr.Err = errText(err)
				if res.ErrObj == nil {
					res.ErrObj = err
				}
				if row != nil {
					pr.RowErr = true
				}
				return pr, true
			}
			if row == nil {
				return pr, true
			}
			pr.NRows = 1
			pr.Rows = [][]string{canonRow(row)}
			if cfg.ClearCtx {
				ctx.Clear()
			}
			return pr, false
		}
		rows, err := plan.Batch(ctx)
		if err != nil {
			if qb, ok := err.(kvql.QueryBinder); ok && cfg.Bind {
				qb.BindQuery(st.Text)
			}
			pr.Err = errText(err)
			if res.ErrObj == nil {
				res.ErrObj = err
			}
			if len(rows) > 0 {
				pr.RowErr = true
			}
			return pr, true
		}
		if len(rows) == 0 {
			return pr, true
		}
		pr.NRows = len(rows)
		pr.Rows = make([][]string, len(rows))
		for i, r := range rows {
			pr.Rows[i] = canonRow(r)
		}
		if cfg.ClearCtx {
			ctx.Clear()
		}
		return pr, false
	}

	kind := "next"
	if st.Mode == ModeBatch {
		kind = "batch"
	}
	// a drain needs at most one poll per stored pair (plus a few): scale the cap with the store
	pollCap := maxPolls
	if n := h.core.snapshot().n; 3*n+100 > pollCap {
		pollCap = 3*n + 100
	}
	nErr := 0
	for {
		pr, end := poll(kind)
		res.Polls = append(res.Polls, pr)
		res.Rows = append(res.Rows, pr.Rows...)
		if pr.Err != "" && pr.Panic == "" && nErr < st.KeepGoing && !res.StepCap {
			nErr++
			res.Rows = append(res.Rows, []string{"!error"})
			if len(res.Polls) < pollCap {
				continue
			}
		}
		if pr.Err != "" && res.Err == "" {
			res.Err = pr.Err
		}
		if pr.Panic != "" && res.Panic == "" {
			res.Panic = pr.Panic
		}
		if end {
			break
		}
		if len(res.Polls) >= pollCap {
			res.StepCap = true
			break
		}
	}
	res.NDrain = len(res.Polls)
	res.CacheHits = ctx.Hit
	if res.Panic != "" || res.StepCap {
		return
	}
	if res.Err != "" && !st.PollAfterErr {
		return
	}
	res.Completed = res.Err == ""
	for _, k := range st.Extra {
		pr, _ := poll(k)
		res.Polls = append(res.Polls, pr)
		if pr.Panic != "" && res.Panic == "" {
			res.Panic = pr.Panic
		}
		if res.StepCap {
			break
		}
	}
	return
}

func errText(err error) string {
	if err == nil {
		return ""
	}
	s := err.Error()
	if s == "" {
		s = "<empty error text>"
	}
	return s
}

// isFaultErr reports whether err is the injected fault (identity through
// errors.Is/As, or — to stay silent on legitimate re-wrapping with %v or
// NewExecuteError — its text carries the fault's unique token).
func isFaultErr(err error, token string) bool {
	if err == nil {
		return false
	}
	var sf *SimFault
	if errors.As(err, &sf) && sf.Token == token {
		return true
	}
	if s := faultFlavour(faultSeqOf(token)); s != nil {
		// a well-known error value was injected at this call: identity, or its text after re-wrapping
		return errors.Is(err, s) || strings.Contains(err.Error(), s.Error())
	}
	return strings.Contains(err.Error(), token)
}

// World is a single-client simulated deployment: one engine, one handle.
type World struct {
	Core *Core
	H    *Handle
}

func NewWorld(init []KV, cfg Config, faults []Fault, tag string) *World {
	c := NewCore(init, cfg.Alias)
	return &World{Core: c, H: NewHandle(c, 0, faults, cfg.Lazy, tag)}
}

// setKnobs sets the process-global tuning knobs of the library (E3).
func setKnobs(cfg Config) {
	b := cfg.Batch
	if b <= 0 {
		b = 32
	}
	kvql.PlanBatchSize = b
	kvql.EnableFieldCache = cfg.Cache
}

// runStmts executes the statements of client 0 in order on a fresh world.
func runStmts(sc *Scenario, cfg Config, stmts []Stmt, faults []Fault) (*World, []StmtRes) {
	setKnobs(cfg)
	w := NewWorld(sc.Init, cfg, faults, fmt.Sprintf("%x", sc.Seed&0xffffff))
	out := make([]StmtRes, 0, len(stmts))
	for i, st := range stmts {
		r := execStmt(w.H, i, st, cfg)
		out = append(out, r)
	}
	return w, out
}

func rowsEqual(a, b [][]string) bool {
	if len(a) != len(b) {
		return false
	}
	for i := range a {
		if !rowEqual(a[i], b[i]) {
			return false
		}
	}
	return true
}

func rowEqual(a, b []string) bool {
	if len(a) != len(b) {
		return false
	}
	for i := range a {
		if a[i] != b[i] {
			return false
		}
	}
	return true
}

func kvsEqual(a, b []KV) bool {
	if len(a) != len(b) {
		return false
	}
	for i := range a {
		if a[i] != b[i] {
			return false
		}
	}
	return true
}

func rowStr(r []string) string { return strings.Join(r, " | ") }

// planShape blanks literals out of an Explain() chain so that it names the
// plan nodes and operators only.
func planShape(explain []string) string {
	var sb strings.Builder
	for i, e := range explain {
		if i > 0 {
			sb.WriteString(">")
		}
		name := e
		if j := strings.IndexByte(e, '{'); j >= 0 {
			name = e[:j]
		}
		sb.WriteString(name)
	}
	return sb.String()
}
