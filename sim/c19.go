package main

import (
	"fmt"
	"os"
	"sort"
	"strings"
)

// C19 — independent statements run concurrently without races or
// interference. Seeded schedule search with the race detector armed.

func init() {
	register(&Prop{
		ID:    "C19",
		Level: "exploration",
		Race:  true,
		Rule:  "case = (2..16 clients, each a goroutine with its own statement list, ExecuteCtx, plans and literals; store topology private / shared read-only / shared read-write with per-client key prefixes; a pre-drawn schedule deciding, at every storage call, which client runs next). Each case is executed under the seeded token scheduler (race detector armed, hand-off invisible to it) and then again with the solo schedule; every statement's result must equal its solo result and no detector report may involve kvql frames. distinct_nontrivial counts distinct interleavings (hash of the realised who-runs-next trace) that contained at least one context switch. 4 % of the non-contended cases are cache floods: every client runs the same anchor statements first, in the middle and last while one client issues 70..2200 distinct regular-expression patterns or statement texts in between; some byte-identical statements are padded to 300..5000 bytes; 2 % of the cases use 17..40 clients; in the shared read-only topology byte-identical statements are also compared with each other within the concurrent run.",
		Assumptions: []string{
			"amd64 (TSO) and Go's compiler reloading a package variable after a call: the token hand-off is a plain variable spin inside //go:norace functions",
			"yield granularity is one storage call: interference that needs a context switch at a point that is not a storage call and leaves no state behind at the next one is not reachable",
			"a data race confined to code between two storage calls and masked by a sync.Pool edge on every run is not visible",
			"knobs (PlanBatchSize, EnableFieldCache) are fixed before the clients start",
			"the library executes a statement on the calling goroutine only (true today: it starts no goroutine); storage calls issued by library-internal goroutines would not be under the scheduler's control",
			"the solo run shares the process with the concurrent run: library state that outlives both is visible only through its effect on the concurrent run",
		},
		Real: "real: all of kvql from /repo's working tree, built with -race; client goroutines are real goroutines; simulated: storage engine (copy-on-write, race-invisible), scheduler (decides who runs at every storage call), callers",
		NCases: func(tier string) int {
			if tier == "thorough" {
				return 150000
			}
			return 2000
		},
		Gen:        genC19,
		Run:        runC19,
		ShrinkLazy: shrinkC19,
		Finish: func(st *Stats, cov map[string]any, tier string) string {
			cov["race_detector_armed"] = raceEnabled
			cov["library_yield_hooks_compiled"] = hooksBuilt
			cov["distinct_interleavings"] = len(st.Distinct)
			if !raceEnabled {
				return "C19 must run from the -race build"
			}
			if !hooksBuilt {
				return "C19 must be built with -tags verif (library yield hooks)"
			}
			return ""
		},
	})
}

const (
	TopoPrivate  = "private"
	TopoSharedRO = "shared-ro"
	TopoSharedRW = "shared-rw"
)

func clientPrefix(c int) string { return fmt.Sprintf("c%d_", c) }

func c19Store(r *Rng, prefix string, n int) []KV {
	out := make([]KV, 0, n)
	for i := 0; i < n; i++ {
		out = append(out, KV{fmt.Sprintf("%sk%03d", prefix, i), genValue(r, StoreMixed)})
	}
	return out
}

// c19Stmt returns one statement for client c. ro restricts to reads.
func c19Stmt(r *Rng, c int, ro bool, scoped bool) Stmt {
	P := clientPrefix(c)
	scope := "key ^= " + quote(P)
	if !scoped && r.Chance(0.5) {
		scope = pick(r, []string{"key ^= 'c'", "key > 'c1'", "value != 'nothing'", "key ^= " + quote(P)})
	}
	k := func() string { return fmt.Sprintf("%sk%03d", P, r.Intn(14)) }
	uniq := fmt.Sprintf("%d", c*7+r.Intn(5))
	reads := []func() string{
		func() string { return "select * where " + scope },
		func() string {
			return "select key, upper(value) as u where " + scope + " & u != " + quote("ZZ"+uniq)
		},
		func() string {
			return fmt.Sprintf("select key, int(value) as n where %s & n > %d order by n desc limit %d", scope, r.Intn(5), r.Range(1, 6))
		},
		func() string { return "select count(1), sum(int(value)), avg(int(value)) where " + scope },
		func() string {
			return "select substr(key, 0, 5) as p, count(1) as c, group_concat(value, ',') where " + scope + " group by p"
		},
		func() string { return "select key, value where key in " + inList([]string{k(), k(), k()}) },
		func() string { return "select key where " + scope + " & value ~= " + quote("^[v"+uniq+"]") },
		func() string { return "select key, json(value)['a'] as a where " + scope + " & value ^= '{'" },
		func() string { return "select key, split(value, ',') as l, len(split(value, ',')) where " + scope },
		func() string {
			return "select key, l2_distance(list(1, 2, " + uniq + "), list(int(value), 2, 3)) as d where " + scope + " order by d"
		},
		func() string { return "select * where key between " + quote(k()) + " and " + quote(P+"k9") },
		func() string {
			return "select key, strlen(value), is_int(value), float(value) + 0.5, lower(key) + '-' + " + quote(uniq) + " where " + scope
		},
		func() string {
			return "select quantile(float(value), 0.5), min(int(value)), max(int(value)) where " + scope
		},
		func() string {
			return "select value, json_arrayagg(key) as ks where " + scope + " group by value order by value limit 4"
		},
		func() string {
			return "select key, join('-', key, value, " + uniq + ") as j where " + scope + " & j != 'x'"
		},
		// failing statements: error constructors and renderers run concurrently too
		func() string { return "select * where " + scope + " limit" },
		func() string { return "selec" + uniq + " * where key = 'a'" },
		func() string { return "select nosuch" + uniq + "(key) where " + scope },
		func() string { return "select * where key = " + uniq },
		func() string { return "select key, 10 / (int(value) - int(value)) where " + scope },
		func() string { return "select key, int(value) as n where " + scope + " & (n / (n - n)) > 1" },
		// more ways to fail: an invalid regular expression, an aggregate whose
		// argument fails on some row (through an alias), a statement cut short
		func() string {
			return "select key where " + scope + " & value ~= " + quote(pick(r, []string{"[", "(a", "a{2,1}", "*"}))
		},
		func() string { return "select key where value ~= '[' & " + scope },
		func() string {
			return fmt.Sprintf("select value as v, sum(100 / (int(v) - %d)) as s, count(1) where %s group by v", r.Intn(6), scope)
		},
		func() string {
			return fmt.Sprintf("select int(value) as n, max(12 / (n - %d)) where %s group by n", r.Intn(4), scope)
		},
		func() string { return fmt.Sprintf("select sum(10 / (int(value) - %d)) where %s", r.Intn(6), scope) },
		func() string {
			// a statement cut short or otherwise damaged (a SELECT: whatever the damage leaves, it cannot write)
			base := pick(r, []string{
				"select key, upper(value) as u where " + scope + " & u != 'ZZ' order by u limit 2, 3",
				"select value, count(1) as c where " + scope + " group by value order by c desc limit 3",
				"select key, int(value) as n where " + scope + " & n > 2",
			})
			if !scoped {
				return corruptText(r, base)
			}
			// shared read-write topology: the solo-run oracle needs every read confined
			// to the client's own prefix, so the damage must leave "where <scope>" as
			// the first conjunct (replacing `key` by a literal made a full scan whose
			// length — and so the position of an injected fault — depended on other
			// clients' writes: a false alarm of this harness, DESIGN.md §10.2)
			for try := 0; try < 8; try++ {
				t := corruptText(r, base)
				if at := strings.Index(t, "where "+scope); at >= 0 {
					rest := t[at+len("where "+scope):]
					if rest == "" || strings.HasPrefix(rest, " & ") || strings.HasPrefix(rest, " group ") || strings.HasPrefix(rest, " order ") || strings.HasPrefix(rest, " limit") {
						return t
					}
				}
			}
			return base + " limit"
		},
	}
	writes := []func() string{
		func() string { return "put (" + quote(k()) + ", " + quote("w"+uniq) + ")" },
		func() string {
			return "put (" + quote(k()) + ", upper('v' + key)), (" + quote(k()) + ", str(" + uniq + " * 3))"
		},
		func() string { return "remove " + quote(k()) },
		func() string { return "remove " + quote(k()) + ", " + quote(k()) },
		func() string {
			return fmt.Sprintf("delete where key ^= %s & int(value) > %d limit %d", quote(P+"k00"), r.Intn(6), r.Range(1, 3))
		},
		func() string { return "delete where key in " + inList([]string{k(), k()}) },
		func() string { return "put (" + quote(k()) + ", 4 / (2 - 2))" },
		// write statements cut short: parse errors of the PUT/REMOVE/DELETE grammar
		func() string {
			return pick(r, []string{"put (" + quote(k()) + ", 'x'", "put (" + quote(k()), "put (" + quote(k()) + " 'x')", "remove", "remove " + quote(k()) + ",", "delete where", "delete where " + scope + " limit"})
		},
	}
	var text string
	switch {
	case !scoped && r.Chance(0.35):
		// any statement the typed generator can produce (its key literals need not
		// exist in this client's store; the point is the library code it runs)
		g := newGen(r, StoreMixed)
		switch {
		case ro || r.Chance(0.7):
			text = g.Select(r.Bool()).Render(false)
		case r.Bool():
			text = g.PutText()
		case r.Bool():
			text = g.RemoveText()
		default:
			text = g.DeleteStmt().Render(false)
		}
	case ro || r.Chance(0.65):
		text = pick(r, reads)()
	default:
		text = pick(r, writes)()
	}
	return Stmt{Text: text, Mode: genMode(r)}
}

func genC19(seed uint64, i int, tier string) *Scenario {
	r := NewRng(seed)
	n := pick(r, []int{2, 3, 4, 8, 16})
	if r.Chance(0.02) {
		n = pick(r, []int{17, 24, 40}) // more goroutines than any per-CPU or 16-slot structure
	}
	topo := pick(r, []string{TopoPrivate, TopoSharedRO, TopoSharedRW, TopoSharedRW, TopoContended})
	sc := &Scenario{Topology: topo, Cfg: Config{Batch: pickBatch(r), Cache: r.Bool(), Alias: r.Chance(0.3), Lazy: r.Chance(0.3), Bind: r.Bool()}}
	for c := 0; c < n; c++ {
		sc.Init = append(sc.Init, c19Store(r, clientPrefix(c), r.Range(3, 14))...)
	}
	if topo == TopoContended {
		for _, hk := range hotKeys {
			if r.Bool() {
				sc.Init = append(sc.Init, KV{hk, "init-" + hk})
			}
		}
	}
	sc.OneStorage = r.Bool()
	nst := pick(r, []int{6, 8, 12, 20, 30})
	if n >= 8 && nst > 12 {
		nst = 12
	}
	if n > 16 {
		nst = 6
	}
	// statements with byte-identical text in several clients (state keyed by
	// query text — plan/AST/result caches — is only shared then); not in the
	// shared read-write topology, where an unscoped read would legitimately see
	// other clients' writes
	var common []Stmt
	if topo != TopoSharedRW && topo != TopoContended {
		g := newGen(r, StoreMixed)
		for k := 0; k < 4; k++ {
			common = append(common, Stmt{Text: g.Select(r.Bool()).Render(false), Mode: genMode(r)})
		}
		common = append(common,
			Stmt{Text: "select count(1), sum(int(value)), max(int(value)) where key ^= 'c'", Mode: genMode(r)},
			Stmt{Text: "select value, count(1) as n, group_concat(key, ',') where key ^= 'c' group by value order by n desc, value limit 5", Mode: genMode(r)},
			Stmt{Text: "select key, upper(value) as u where u ~= '^[V0-9]' & key ^= 'c'", Mode: genMode(r)},
			Stmt{Text: "select key, int(value) / (int(value) - int(value)) where key ^= 'c'", Mode: genMode(r)},
			Stmt{Text: "select key where key ^= 'c' & value ~= '['", Mode: genMode(r)},
			Stmt{Text: "select key where key ^= 'c' & value ~= '^[v0-9]'", Mode: genMode(r)},
			Stmt{Text: "select value as v, sum(100 / (int(v) - 5)) as s where key ^= 'c' group by v", Mode: genMode(r)},
			Stmt{Text: "select value as v, sum(int(v)) as s where key ^= 'c' group by v", Mode: genMode(r)},
			Stmt{Text: "put ('x', 'y'", Mode: genMode(r)},
			Stmt{Text: "put ('x'", Mode: genMode(r)},
			Stmt{Text: "select * where", Mode: genMode(r)})
	}
	// some of the shared texts are long (state keyed by statement text may only be
	// kept beyond a length threshold)
	for k := range common {
		if r.Chance(0.3) {
			common[k].Text = padStmt(common[k].Text, pick(r, []int{300, 600, 1200, 5000}))
		}
	}
	total := 0
	for c := 0; c < n; c++ {
		cl := Client{ID: c}
		for s := 0; s < nst; s++ {
			if len(common) > 0 && r.Chance(0.25) {
				st := pick(r, common)
				st.Mode = genMode(r)
				cl.Stmts = append(cl.Stmts, st)
				continue
			}
			if topo == TopoContended {
				cl.Stmts = append(cl.Stmts, c19ContendedStmt(r, c, s))
				continue
			}
			cl.Stmts = append(cl.Stmts, c19Stmt(r, c, topo == TopoSharedRO, topo == TopoSharedRW))
		}
		total += nst
		sc.Clients = append(sc.Clients, cl)
	}
	if topo != TopoContended && r.Chance(0.04) {
		c19Flood(r, sc)
	}
	// storage faults in some scenarios: error paths run concurrently too, and state
	// left behind by a failed call must not leak into another client's statements
	if r.Chance(0.5) && topo != TopoContended {
		sc.CFaults = make([][]Fault, n)
		for c := 0; c < n; c++ {
			for k := r.Intn(4); k > 0; k-- {
				kind := FErr
				if r.Chance(0.25) {
					kind = FApplied
				}
				sc.CFaults[c] = append(sc.CFaults[c], Fault{Call: r.Intn(nst*12 + 1), Kind: kind})
			}
		}
	}
	// library-internal yield points (swarm: a random subset of sites per run)
	if r.Chance(0.6) {
		for _, site := range allHookSites {
			if r.Chance(0.5) {
				sc.HookSites = append(sc.HookSites, site)
			}
		}
		sc.HookPerMil = pick(r, []int{5, 30, 150, 500})
	}
	// per-client schedules: after client i's k-th storage call, who runs next
	per := nst * 80 // two yields per storage call: on entry and on return
	if per > 6000 {
		per = 6000
	}
	cs := make([][]int, n)
	kind := r.Intn(10)
	p := pick(r, []float64{0.05, 0.3, 0.7, 1.0})
	kcut := r.Intn(nst*4 + 1)
	for c := 0; c < n; c++ {
		cs[c] = make([]int, per)
		for j := range cs[c] {
			switch {
			case kind < 7:
				// random switch probability: long runs of one client ... fine-grained alternation
				if r.Chance(p) {
					cs[c][j] = r.Intn(n)
				} else {
					cs[c][j] = -1
				}
			case kind < 9:
				// directed: client 0 runs alone up to its k-th call, then hands over; sparse switches afterwards
				switch {
				case c == 0 && j < kcut:
					cs[c][j] = -1
				case c == 0 && j == kcut:
					cs[c][j] = 1 % n
				case r.Chance(0.1):
					cs[c][j] = r.Intn(n)
				default:
					cs[c][j] = -1
				}
			default:
				// everybody reaches its first storage call before anyone proceeds, then round robin
				cs[c][j] = (c + 1) % n
			}
		}
	}
	sc.CSched = cs
	return sc
}

// padStmt lengthens a SELECT by conjoining a comparison with a long literal
// (true for every stored value) to its WHERE clause.
func padStmt(text string, n int) string {
	at := strings.Index(text, " where ")
	if at < 0 || !strings.HasPrefix(text, "select") {
		return text
	}
	end := len(text)
	for _, kw := range []string{" group by ", " order by ", " limit "} {
		if j := strings.Index(text[at:], kw); j >= 0 && at+j < end {
			end = at + j
		}
	}
	return text[:end] + " & value != '" + strings.Repeat("p", n) + "'" + text[end:]
}

// c19Flood turns a scenario into a cache flood: every client runs the same
// small "anchor" statements first and last, and one client issues, in between,
// hundreds to thousands of distinct items of a kind a library might memoise
// process-wide — regular-expression patterns (in one statement, or spread over
// many) or statement texts. A bounded cache keyed by such items that evicts,
// collides or wraps incorrectly makes an anchor return something else than it
// does alone. All of it is inside one scenario, so a replay in a fresh process
// sees the same cache history.
func c19Flood(r *Rng, sc *Scenario) {
	n := len(sc.Clients)
	f := r.Intn(n)
	P := clientPrefix(sc.Clients[f].ID)
	m := pick(r, []int{70, 140, 300, 1100, 1100})
	if r.Chance(0.05) {
		m = 2200
	}
	tag := r.Intn(1000)
	var flood []Stmt
	switch r.Intn(3) {
	case 0: // one statement, m patterns (none matches: every one is evaluated)
		parts := make([]string, m)
		for j := range parts {
			parts[j] = fmt.Sprintf("value ~= '^ZQ%dx%d$'", tag, j)
		}
		flood = append(flood, Stmt{Text: "select key where key ^= " + quote(P) + " & (" + strings.Join(parts, " | ") + ")", Mode: genMode(r)})
	case 1: // m patterns over m/24 statements
		for j := 0; j < m; j += 24 {
			var parts []string
			for k := j; k < j+24 && k < m; k++ {
				parts = append(parts, fmt.Sprintf("value ~= '^ZQ%dy%d$'", tag, k))
			}
			flood = append(flood, Stmt{Text: "select key where key ^= " + quote(P) + " & (" + strings.Join(parts, " | ") + ")", Mode: genMode(r)})
		}
	default: // m distinct statement texts
		for j := 0; j < m; j++ {
			flood = append(flood, Stmt{Text: fmt.Sprintf("select key, value where key = '%sk%03d' & value != 'ZQ%dt%d'", P, j%14, tag, j), Mode: genMode(r)})
		}
	}
	for c := range sc.Clients {
		Pc := clientPrefix(sc.Clients[c].ID)
		anchors := []Stmt{
			{Text: "select key where key ^= " + quote(Pc) + " & value ~= '^[v0-9]'", Mode: genMode(r)},
			{Text: "select key, value where key = '" + Pc + "k001' & value != 'ZQ'", Mode: genMode(r)},
			{Text: "select count(1), max(value) where key ^= " + quote(Pc) + " & value ~= '[a-z]'", Mode: genMode(r)},
		}
		st := sc.Clients[c].Stmts
		mid := len(st) / 2
		var out []Stmt
		out = append(out, anchors...)
		out = append(out, st[:mid]...)
		if c == f {
			out = append(out, flood...)
		} else {
			out = append(out, anchors...)
		}
		out = append(out, st[mid:]...)
		out = append(out, anchors...)
		sc.Clients[c].Stmts = out
	}
	sc.Family = "flood"
}

type multiRes struct {
	res                      [][]StmtRes
	dumps                    [][]KV
	traceH                   uint64
	yields                   int
	switches                 int
	steps                    int
	polls                    int
	faults                   int
	stamps                   [][][2]int64 // per client, per statement: logical time at invoke and at return
	hookYields, hookSwitches int
	perSite                  [len(allHookSites)]int32
}

// runClients executes the scenario under its schedules (concurrent) or with
// the solo schedule (every client to completion, one after the other).
func runClients(sc *Scenario, concurrent bool) *multiRes {
	n := len(sc.Clients)
	setKnobs(sc.Cfg)
	cores := make([]*Core, n)
	switch sc.Topology {
	case TopoPrivate:
		for c := 0; c < n; c++ {
			var mine []KV
			for _, kv := range sc.Init {
				if strings.HasPrefix(kv.K, clientPrefix(sc.Clients[c].ID)) {
					mine = append(mine, kv)
				}
			}
			cores[c] = NewCore(mine, sc.Cfg.Alias)
		}
	default:
		shared := NewCore(sc.Init, sc.Cfg.Alias)
		for c := 0; c < n; c++ {
			cores[c] = shared
		}
	}
	handles := make([]*Handle, n)
	for c := 0; c < n; c++ {
		var cf []Fault
		if c < len(sc.CFaults) {
			cf = sc.CFaults[c]
		}
		handles[c] = NewHandle(cores[c], c, cf, sc.Cfg.Lazy, fmt.Sprintf("c%d", c))
		handles[c].yield = schedYield
		handles[c].yieldAfter = true
	}
	if sc.OneStorage && sc.Topology != TopoPrivate {
		front := &frontStorage{hs: handles}
		for c := 0; c < n; c++ {
			handles[c].front = front
		}
	}
	ids := make([]int32, n)
	cs32 := make([][]int32, n)
	for c := 0; c < n; c++ {
		ids[c] = int32(sc.Clients[c].ID)
		if concurrent && c < len(sc.CSched) {
			cs32[c] = make([]int32, len(sc.CSched[c]))
			for i, v := range sc.CSched[c] {
				cs32[c][i] = int32(v)
			}
		}
	}
	trace := make([]int32, 70000)
	out := &multiRes{res: make([][]StmtRes, n), stamps: make([][][2]int64, n)}
	cfg := sc.Cfg
	if !concurrent {
		schedSetHooks(nil, 0, 0) // solo: no switches anywhere
	} else {
		schedSetHooks(sc.HookSites, sc.HookPerMil, sc.Seed|1)
	}
	installHook()
	defer removeHook()
	runUnderSchedulerX(n, nil, trace, 0, func() { schedSetPerClient(ids, cs32) }, func(c int) {
		stmts := sc.Clients[c].Stmts
		rs := make([]StmtRes, 0, len(stmts))
		iv := make([][2]int64, 0, len(stmts))
		for i, st := range stmts {
			t0 := schedTick()
			rs = append(rs, execStmt(handles[c], i, st, cfg))
			iv = append(iv, [2]int64{t0, schedTick()})
		}
		out.res[c] = rs
		out.stamps[c] = iv
	})
	y, sw, nt := schedCounters()
	out.yields, out.switches = y, sw
	out.hookYields, out.hookSwitches, out.perSite = schedHookCounters()
	for c := 0; c < n; c++ {
		out.faults += len(handles[c].fired)
	}
	h := uint64(1469598103934665603)
	for i := 0; i < nt; i++ {
		h ^= uint64(uint32(trace[i]))
		h *= 1099511628211
	}
	out.traceH = h
	seen := map[*Core]bool{}
	for c := 0; c < n; c++ {
		out.steps += len(handles[c].log)
		for i := range out.res[c] {
			out.polls += len(out.res[c][i].Polls)
		}
		if !seen[cores[c]] {
			seen[cores[c]] = true
			d, _ := cores[c].Dump()
			out.dumps = append(out.dumps, d)
		}
	}
	return out
}

func stmtResEqual(a, b *StmtRes) (bool, string) {
	switch {
	case a.BuildErr != b.BuildErr:
		return false, fmt.Sprintf("plan error %q vs %q", oneLine(a.BuildErr, 100), oneLine(b.BuildErr, 100))
	case a.Err != b.Err:
		return false, fmt.Sprintf("error %q vs %q", oneLine(a.Err, 100), oneLine(b.Err, 100))
	case (a.Panic != "") != (b.Panic != ""):
		return false, fmt.Sprintf("panic %q vs %q", a.Panic, b.Panic)
	case a.StepCap != b.StepCap:
		return false, "termination differs"
	case !rowsEqual(a.Rows, b.Rows):
		return false, fmt.Sprintf("%d rows %s vs %d rows %s", len(a.Rows), briefRows(a.Rows), len(b.Rows), briefRows(b.Rows))
	}
	return true, ""
}

var raceLogOffset int64

// newRaceReports returns detector reports written since the last call.
func newRaceReports() []string {
	lp := os.Getenv("SIMKV_RACE_LOG")
	if lp == "" || !raceEnabled {
		return nil
	}
	path := fmt.Sprintf("%s.%d", lp, os.Getpid())
	b, err := os.ReadFile(path)
	if err != nil || int64(len(b)) <= raceLogOffset {
		return nil
	}
	fresh := string(b[raceLogOffset:])
	raceLogOffset = int64(len(b))
	var reps []string
	for _, blk := range strings.Split(fresh, "==================") {
		if strings.Contains(blk, "DATA RACE") {
			reps = append(reps, blk)
		}
	}
	return reps
}

// raceFrames extracts the kvql frames (function names) of a detector report.
func raceFrames(rep string) (kv []string, harnessOnly bool) {
	seen := map[string]bool{}
	for _, ln := range strings.Split(rep, "\n") {
		ln = strings.TrimSpace(ln)
		if strings.HasPrefix(ln, "github.com/c4pt0r/kvql.") {
			fn := ln
			if j := strings.IndexByte(fn, '('); j > 0 {
				fn = fn[:j]
			}
			fn = strings.TrimPrefix(fn, "github.com/c4pt0r/kvql.")
			if !seen[fn] {
				seen[fn] = true
				kv = append(kv, fn)
			}
		}
	}
	return kv, len(kv) == 0
}

func runC19(sc *Scenario, st *Stats) []Violation {
	var vs []Violation
	newRaceReports() // discard anything older
	conc := runClients(sc, true)
	st.Evaluations++
	st.Steps += conc.steps
	st.Polls += conc.polls
	st.Add("yields", conc.yields)
	st.Add("context_switches", conc.switches)
	st.Add("fault_fired:err(any kind, concurrent run)", conc.faults)
	st.Add("library_yield_points_reached", conc.hookYields)
	st.Add("context_switches_at_library_yield_points", conc.hookSwitches)
	for i, n := range conc.perSite {
		if n > 0 {
			st.Add("yield_site:"+allHookSites[i], int(n))
		}
	}
	st.Inc(fmt.Sprintf("clients:%d", len(sc.Clients)))
	st.Inc("topology:" + sc.Topology)
	if conc.switches+conc.hookSwitches > 0 {
		st.Seen(fmt.Sprintf("%x", conc.traceH))
	}
	reps := newRaceReports()
	if sc.Topology == TopoContended {
		return judgeContended(sc, st, conc, reps)
	}
	solo := runClients(sc, false)
	st.Evaluations++
	st.Steps += solo.steps
	reps = append(reps, newRaceReports()...)
	// digest for the determinism audit: the realised interleaving and all results
	d := conc.traceH
	for c := range conc.res {
		for i := range conc.res[c] {
			r := &conc.res[c][i]
			d = d*1099511628211 ^ fnv64(r.BuildErr+"|"+r.Err+"|"+fmt.Sprint(len(r.Rows)))
			for _, row := range r.Rows {
				d = d*1099511628211 ^ fnv64(rowStr(row))
			}
		}
	}
	st.curDigest = d
	st.curHook = conc.hookYields
	st.Sample(map[string]any{"clients": len(sc.Clients), "topology": sc.Topology, "statements_per_client": len(sc.Clients[0].Stmts),
		"yields": conc.yields, "context_switches": conc.switches, "interleaving_hash": fmt.Sprintf("%x", conc.traceH),
		"client0_first_statements": firstTexts(sc.Clients[0].Stmts, 3)}, 3)

	for c := range conc.res {
		if len(conc.res[c]) != len(solo.res[c]) {
			vs = append(vs, Violation{Prop: "C19", Kind: "interference", Detail: fmt.Sprintf("client %d completed %d statements concurrently, %d solo", c, len(conc.res[c]), len(solo.res[c])), Sig: "count"})
			continue
		}
		for i := range conc.res[c] {
			if ok, why := stmtResEqual(&conc.res[c][i], &solo.res[c][i]); !ok {
				vs = append(vs, Violation{Prop: "C19", Kind: "interference",
					Detail: fmt.Sprintf("client %d statement #%d returned a different result under the concurrent schedule than when run alone: %s | statement: %s", c, i, why, sc.Clients[c].Stmts[i].Text),
					Sig:    fmt.Sprintf("topology=%s stmt=%s plan=%s", sc.Topology, stmtKind(sc.Clients[c].Stmts[i].Text), planShape(solo.res[c][i].Explain))})
				break
			}
		}
	}
	if sc.Topology == TopoSharedRO && len(vs) == 0 {
		// nobody writes: byte-identical statements drained the same way return the same
		// result whoever runs them and whenever (statements hit by an injected fault aside)
		type firstRes struct {
			c, i int
		}
		first := map[string]firstRes{}
	repeat:
		for c := range conc.res {
			for i := range conc.res[c] {
				r := &conc.res[c][i]
				if looksFaulted(r.Err) || looksFaulted(r.BuildErr) {
					continue
				}
				k := sc.Clients[c].Stmts[i].Mode + "|" + sc.Clients[c].Stmts[i].Text
				fr, ok := first[k]
				if !ok {
					first[k] = firstRes{c, i}
					continue
				}
				if same, why := stmtResEqual(&conc.res[fr.c][fr.i], r); !same {
					vs = append(vs, Violation{Prop: "C19", Kind: "interference",
						Detail: fmt.Sprintf("nobody writes to the store, yet the same statement returned different results to client %d (statement #%d) and client %d (statement #%d) of the concurrent run: %s | statement: %s", fr.c, fr.i, c, i, why, sc.Clients[c].Stmts[i].Text),
						Sig:    fmt.Sprintf("topology=%s repeat stmt=%s", sc.Topology, stmtKind(sc.Clients[c].Stmts[i].Text))})
					break repeat
				}
				st.Inc("repeated_statements_compared")
			}
		}
	}
	if len(conc.dumps) == len(solo.dumps) {
		for i := range conc.dumps {
			if !kvsEqual(conc.dumps[i], solo.dumps[i]) {
				vs = append(vs, Violation{Prop: "C19", Kind: "interference", Detail: "final store differs between the concurrent and the solo execution: " + diffKVs(conc.dumps[i], solo.dumps[i]), Sig: "topology=" + sc.Topology + " final-store"})
			}
		}
	}
	harness := 0
	for _, rep := range reps {
		frames, honly := raceFrames(rep)
		if honly {
			harness++
			st.Inc("race_reports_harness_only")
			fmt.Fprintln(os.Stderr, "HARNESS-RACE:", oneLine(rep, 1500))
			continue
		}
		st.Inc("race_reports_kvql")
		top := frames
		if len(top) > 6 {
			top = top[:6]
		}
		vs = append(vs, Violation{Prop: "C19", Kind: "data-race",
			Detail: "race detector report involving library code: " + strings.Join(top, " <- ") + " | " + oneLine(rep, 900),
			Sig:    "race " + strings.Join(sortedCopy(top), ",")})
	}
	return vs
}

func sortedCopy(xs []string) []string {
	c := append([]string{}, xs...)
	sort.Strings(c)
	return c
}

func firstTexts(ss []Stmt, n int) []string {
	var out []string
	for i := 0; i < len(ss) && i < n; i++ {
		out = append(out, ss[i].Text)
	}
	return out
}

// shrinkC19 proposes one candidate at a time (each is a copy of a large
// scenario, so none is built before it is needed): fewer clients (halves,
// pairs, one less), fewer statements, fewer yield sites, no faults, fewer
// context switches.
func shrinkC19(sc *Scenario, try func(*Scenario) bool) {
	nc := len(sc.Clients)
	keep := func(idx ...int) bool {
		c := cloneScenarioLight(sc)
		var cs []Client
		var cf [][]Fault
		var sch [][]int
		for _, i := range idx {
			cs = append(cs, sc.Clients[i])
			if i < len(sc.CFaults) {
				cf = append(cf, sc.CFaults[i])
			}
			if i < len(sc.CSched) {
				sch = append(sch, sc.CSched[i])
			}
		}
		c.Clients = cs
		c.CFaults = nil
		if len(sc.CFaults) > 0 {
			c.CFaults = cf
		}
		c.CSched = sch
		return try(c)
	}
	if nc > 2 {
		var a, b []int
		for i := 0; i < nc; i++ {
			if i < nc/2 {
				a = append(a, i)
			} else {
				b = append(b, i)
			}
		}
		if keep(a...) || keep(b...) {
			return
		}
		for i := 0; i < nc; i++ {
			for j := i + 1; j < nc; j++ {
				if keep(i, j) {
					return
				}
			}
		}
		for d := 0; d < nc; d++ {
			var rest []int
			for i := 0; i < nc; i++ {
				if i != d {
					rest = append(rest, i)
				}
			}
			if keep(rest...) {
				return
			}
		}
	}
	// statements: halves of each client's list, then single statements
	withStmts := func(ci int, st []Stmt) bool {
		c := cloneScenarioLight(sc)
		c.Clients = append([]Client{}, sc.Clients...)
		c.Clients[ci] = Client{ID: sc.Clients[ci].ID, Stmts: st}
		return try(c)
	}
	for ci := range sc.Clients {
		st := sc.Clients[ci].Stmts
		if n := len(st); n > 1 {
			if withStmts(ci, st[:n/2]) || withStmts(ci, st[n/2:]) {
				return
			}
		}
	}
	for ci := range sc.Clients {
		st := sc.Clients[ci].Stmts
		for i := range st {
			if len(st) <= 1 {
				break
			}
			ns := append(append([]Stmt{}, st[:i]...), st[i+1:]...)
			if withStmts(ci, ns) {
				return
			}
		}
	}
	for i := range sc.HookSites {
		c := cloneScenarioLight(sc)
		c.HookSites = append(append([]string{}, sc.HookSites[:i]...), sc.HookSites[i+1:]...)
		if try(c) {
			return
		}
	}
	if len(sc.CFaults) > 0 {
		c := cloneScenarioLight(sc)
		c.CFaults = nil
		if try(c) {
			return
		}
	}
	for ci := range sc.CSched {
		if len(sc.CSched[ci]) > 0 {
			c := cloneScenarioLight(sc)
			c.CSched = append([][]int{}, sc.CSched...)
			c.CSched[ci] = sc.CSched[ci][:len(sc.CSched[ci])/2]
			if try(c) {
				return
			}
		}
	}
	for ci := range sc.CSched {
		for i, v := range sc.CSched[ci] {
			if v >= 0 && i < 40 {
				c := cloneScenarioLight(sc)
				c.CSched = append([][]int{}, sc.CSched...)
				c.CSched[ci] = append([]int{}, sc.CSched[ci]...)
				c.CSched[ci][i] = -1
				if try(c) {
					return
				}
			}
		}
	}
	for _, c := range shrinkConfig(sc) {
		if try(c) {
			return
		}
	}
}

// cloneScenarioLight copies the scenario header; slices are shared with the
// original and must be replaced, not modified, by the caller.
func cloneScenarioLight(sc *Scenario) *Scenario {
	c := *sc
	return &c
}

// judgeContended: linearizability of the hot-key history + detector reports.
func judgeContended(sc *Scenario, st *Stats, conc *multiRes, reps []string) []Violation {
	var vs []Violation
	d := conc.traceH
	for c := range conc.res {
		for i := range conc.res[c] {
			r := &conc.res[c][i]
			d = d*1099511628211 ^ fnv64(r.BuildErr+"|"+r.Err+"|"+fmt.Sprint(len(r.Rows), conc.stamps[c][i]))
			for _, row := range r.Rows {
				d = d*1099511628211 ^ fnv64(rowStr(row))
			}
		}
	}
	st.curDigest = d
	st.curHook = conc.hookYields
	evs, usable := linHistory(sc, conc.res, conc.stamps)
	if !usable {
		st.Inc("contended_history_unusable")
	} else {
		init := map[string]string{}
		for _, kv := range sc.Init {
			init[kv.K] = kv.V
		}
		st.Add("linearizability_ops_checked", len(evs))
		key, detail, unknown := checkLinearizable(evs, init)
		st.Add("linearizability_inconclusive_keys", unknown)
		if key != "" {
			vs = append(vs, Violation{Prop: "C19", Kind: "not-linearizable",
				Detail: fmt.Sprintf("the point reads and writes of key %q by %d concurrent clients (storage calls are atomic) cannot be explained by any order consistent with which statements had returned before which were invoked; history of the key:%s", key, len(sc.Clients), detail),
				Sig:    "topology=contended"})
		}
	}
	st.Sample(map[string]any{"clients": len(sc.Clients), "topology": sc.Topology, "hot_key_operations": len(evs),
		"yields": conc.yields, "context_switches": conc.switches, "client0_first_statements": firstTexts(sc.Clients[0].Stmts, 3)}, 4)
	for _, rep := range reps {
		frames, honly := raceFrames(rep)
		if honly {
			st.Inc("race_reports_harness_only")
			fmt.Fprintln(os.Stderr, "HARNESS-RACE:", oneLine(rep, 1500))
			continue
		}
		st.Inc("race_reports_kvql")
		top := frames
		if len(top) > 6 {
			top = top[:6]
		}
		vs = append(vs, Violation{Prop: "C19", Kind: "data-race",
			Detail: "race detector report involving library code: " + strings.Join(top, " <- ") + " | " + oneLine(rep, 900),
			Sig:    "race " + strings.Join(sortedCopy(top), ",")})
	}
	return vs
}
