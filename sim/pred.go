package main

import (
	"fmt"
	"strings"
)

// ---------------------------------------------------------------------------
// Predicates over key/value used by C11 (DELETE) and C08 (delete family):
// key-pinning atoms with the literal on either side, opaque value atoms, and
// AND/OR/NOT mixes. Rendered fully parenthesised.
// ---------------------------------------------------------------------------

type predGen struct {
	r    *Rng
	keys []string // literal pool for key atoms
}

func newPredGen(r *Rng, init []KV) *predGen {
	pg := &predGen{r: r}
	for _, kv := range init {
		if isQuotable(kv.K) {
			pg.keys = append(pg.keys, kv.K)
		}
	}
	pg.keys = append(pg.keys, "a", "ab", "k", "k0", "k00", "k01", "k005", "k010", "m", "zz", "nokey", "")
	return pg
}

// isQuotable: can be written between single quotes in a statement (the lexer
// is byte-oriented and has no escapes).
func isQuotable(s string) bool {
	return !strings.ContainsAny(s, "'\"`")
}

func (g *predGen) lit() string {
	k := pick(g.r, g.keys)
	if g.r.Chance(0.15) && len(k) > 1 {
		k = k[:g.r.Range(1, len(k)-1)]
	}
	return k
}

func (g *predGen) keyAtom() string {
	r := g.r
	l := quote(g.lit())
	switch r.Intn(12) {
	case 0:
		return "key = " + l
	case 1:
		return l + " = key"
	case 2:
		n := r.Range(1, 5)
		ks := make([]string, n)
		for i := range ks {
			ks[i] = g.lit()
		}
		if r.Chance(0.3) {
			// the same few keys listed several times, not next to each other
			base := []string{g.lit(), g.lit(), g.lit()}
			ks = ks[:0]
			for i := 0; i < r.Range(3, 6); i++ {
				ks = append(ks, base[i%len(base)])
			}
			shuffle(r, ks)
		}
		if r.Chance(0.12) {
			// a list item that is not a literal: the set of keys is then not known when the plan is built
			q := make([]string, len(ks))
			for i := range ks {
				q[i] = quote(ks[i])
			}
			q[r.Intn(len(q))] = pick(r, []string{"value", "lower(value)", "key", "upper(key)", "(value + '')"})
			return "key in (" + strings.Join(q, ", ") + ")"
		}
		return "key in " + inList(ks)
	case 3, 4:
		return "key ^= " + quote(prefixOf(r, g.lit()))
	case 5:
		op := pick(r, []string{">", ">=", "<", "<="})
		return "key " + op + " " + l
	case 6:
		op := pick(r, []string{">", ">=", "<", "<="})
		return l + " " + op + " key"
	case 7, 8:
		a, b := g.lit(), g.lit()
		if a > b {
			a, b = b, a
		}
		if a == b {
			b = b + "z"
		}
		return "(key between " + quote(a) + " and " + quote(b) + ")"
	case 9:
		return "key != " + l
	case 10:
		a, b := g.lit(), g.lit()
		if a > b {
			a, b = b, a
		}
		return "(key >= " + quote(a) + " & key <= " + quote(b+"9") + ")"
	default:
		return "key ~= " + quote("^"+prefixOf(r, g.lit()))
	}
}

// siblingPair: two atoms of the same shape over literals that differ in their
// last byte only (the neighbouring byte value, or another stored key with the
// same stem), joined by OR or AND: planners merge such regions (union hull,
// common prefix, intersection), and that is where byte arithmetic goes wrong.
func (g *predGen) siblingPair() string {
	r := g.r
	k := g.lit()
	for try := 0; try < 8 && len(k) < 2; try++ {
		k = g.lit()
	}
	if len(k) < 1 {
		k = "k"
	}
	stem := k[:len(k)-1]
	s := ""
	for _, o := range g.keys {
		if o != k && len(o) == len(k) && strings.HasPrefix(o, stem) && r.Chance(0.5) {
			s = o
			break
		}
	}
	if s == "" {
		last := k[len(k)-1]
		switch {
		case last == 0xff:
			last = 0xfe
		case last == '&' || last == '!' || last == '_': // the next byte would be a quote character
			last += 2
		default:
			last++
		}
		s = stem + string([]byte{last})
	}
	if !isQuotable(s) {
		s = stem + "x"
	}
	a, b := quote(k), quote(s)
	op := pick(r, []string{" | ", " or ", " | ", " & ", " and "})
	switch r.Intn(6) {
	case 0, 1:
		return "key ^= " + a + op + "key ^= " + b
	case 2:
		return "key = " + a + op + "key = " + b
	case 3:
		return "key >= " + a + op + "key < " + b
	case 4:
		return "key ^= " + a + op + "key = " + b
	default:
		return "(key between " + a + " and " + quote(k+"~") + ")" + op + "(key between " + b + " and " + quote(s+"~") + ")"
	}
}

// complementPair: two (or three) atoms over ONE literal whose regions are
// complementary or overlap only at the literal - `key > L | key <= L`,
// `key < L | key > L`, `key >= L & key <= L` - bare, under `!`, or with an
// opaque atom as a further operand: the planner's interval algebra meets its
// own edge cases (everything, nothing, exactly one key).
func (g *predGen) complementPair() string {
	r := g.r
	if r.Chance(0.2) {
		// one bound under NOT, often on the empty string: everything / nothing / exactly the empty key
		lit := g.lit()
		if r.Chance(0.4) {
			lit = ""
		}
		if r.Bool() {
			return "!(key " + pick(r, []string{">=", ">", "<=", "<"}) + " " + quote(lit) + ")"
		}
		return "!(" + quote(lit) + " " + pick(r, []string{">=", ">", "<=", "<"}) + " key)"
	}
	if r.Chance(0.15) {
		// a literal key predicate ANDed with a key list that holds a non-literal item
		items := []string{quote(g.lit()), pick(r, []string{"value", "lower(value)", "key", "(value + '')"})}
		if r.Bool() {
			items[0], items[1] = items[1], items[0]
		}
		return "key = " + quote(g.lit()) + pick(r, []string{" & ", " and "}) + "key in (" + strings.Join(items, ", ") + ")"
	}
	l := quote(g.lit())
	a, b := pick(r, [][2]string{{">", "<="}, {"<", ">="}, {"<", ">"}, {">=", "<="}, {"<=", ">="}, {">", "<"}}), ""
	op := pick(r, []string{" | ", " or ", " & ", " and "})
	p := "key " + a[0] + " " + l + op + "key " + a[1] + " " + l
	if r.Chance(0.2) {
		p = l + " " + a[0] + " key" + op + "key " + a[1] + " " + l
	}
	if r.Chance(0.35) {
		b = pick(r, []string{" | ", " or ", " & "}) + g.opaqueAtom()
	}
	p += b
	if r.Chance(0.5) {
		return "!(" + p + ")"
	}
	return p
}

func prefixOf(r *Rng, k string) string {
	if len(k) <= 1 {
		return k
	}
	return k[:r.Range(1, len(k))]
}

func (g *predGen) opaqueAtom() string {
	r := g.r
	switch r.Intn(8) {
	case 0:
		return "value = " + quote(pick(r, valuePoolText))
	case 1:
		return fmt.Sprintf("int(value) > %d", r.Intn(8))
	case 2:
		return "value ~= " + quote(pick(r, []string{"^v", "a", "^[0-9]+$", "l$"}))
	case 3:
		return "value ^= " + quote(pick(r, []string{"v", "va", "1", "{", ""}))
	case 4:
		return "is_int(value)"
	case 5:
		return fmt.Sprintf("strlen(value) >= %d", r.Intn(5))
	case 6:
		return "value != " + quote(pick(r, valuePoolInt))
	default:
		return fmt.Sprintf("int(value) <= %d", r.Intn(12))
	}
}

// pred builds a predicate of the given depth. keyBias is the probability that
// an atom constrains the key.
func (g *predGen) pred(depth int, keyBias float64) string {
	r := g.r
	if depth <= 0 || r.Chance(0.3) {
		if r.Chance(keyBias) {
			return g.keyAtom()
		}
		return g.opaqueAtom()
	}
	if r.Chance(0.08) {
		return "!(" + g.pred(depth-1, keyBias) + ")"
	}
	op := pick(r, []string{"&", "|", "and", "or", "&", "|"})
	return "(" + g.pred(depth-1, keyBias) + " " + op + " " + g.pred(depth-1, keyBias) + ")"
}

func topPred(g *predGen) string {
	if g.r.Chance(0.015) {
		// a long chain: many disjuncts (or conjuncts), one of them compound
		n := g.r.Range(17, 24)
		if g.r.Chance(0.3) {
			n = pick(g.r, []int{66, 70, 130, 300}) // deeper than any fixed-size stack or recursion guard
		}
		op := pick(g.r, []string{" | ", " or ", " | ", " & "})
		parts := make([]string, n)
		pointOnly := g.r.Bool() // only equalities / IN lists: the whole clause pins a literal key set
		// the guarded key is mentioned nowhere else in the chain (else the guard would not matter)
		guarded := g.lit()
		other := func() string {
			for try := 0; try < 20; try++ {
				if l := g.lit(); l != guarded {
					return l
				}
			}
			return guarded + "~"
		}
		for i := range parts {
			if pointOnly {
				if g.r.Bool() {
					parts[i] = "key = " + quote(other())
				} else {
					parts[i] = "key in " + inList([]string{other(), other()})
				}
			} else {
				parts[i] = g.keyAtom()
			}
		}
		if pointOnly {
			at := g.r.Intn(n)
			if g.r.Bool() {
				at = 0
			}
			parts[at] = "(key = " + quote(guarded) + " & " + g.opaqueAtom() + ")"
			return strings.Join(parts, pick(g.r, []string{" | ", " or "}))
		}
		parts[g.r.Intn(n)] = "(" + g.keyAtom() + " & " + g.opaqueAtom() + ")"
		if g.r.Bool() {
			parts[0] = "(" + g.keyAtom() + " & " + g.opaqueAtom() + ")"
		}
		return strings.Join(parts, op)
	}
	if g.r.Chance(0.05) {
		return g.complementPair()
	}
	if g.r.Chance(0.06) {
		p := g.siblingPair()
		if g.r.Chance(0.3) {
			p = "(" + p + ") & " + g.opaqueAtom()
		}
		return p
	}
	p := g.pred(g.r.Range(0, 3), 0.7)
	// strip one redundant outer pair of parentheses now and then: both forms must behave alike
	if strings.HasPrefix(p, "(") && strings.HasSuffix(p, ")") && g.r.Bool() && balancedOuter(p) {
		p = p[1 : len(p)-1]
	}
	return p
}

func balancedOuter(p string) bool {
	depth := 0
	for i := 0; i < len(p); i++ {
		switch p[i] {
		case '(':
			depth++
		case ')':
			depth--
			if depth == 0 && i != len(p)-1 {
				return false
			}
		case '\'':
			j := strings.IndexByte(p[i+1:], '\'')
			if j < 0 {
				return false
			}
			i += j + 1
		}
	}
	return depth == 0
}
