package main

import (
	"fmt"
	"strings"
)

// ---------------------------------------------------------------------------
// Predicates over key/value used by C11 (DELETE) and C08 (delete family):
// key-pinning atoms with the literal on either side, opaque value atoms, and
// AND/OR/NOT mixes. Rendered fully parenthesised.
// ---------------------------------------------------------------------------

type predGen struct {
	r    *Rng
	keys []string // literal pool for key atoms
}

func newPredGen(r *Rng, init []KV) *predGen {
	pg := &predGen{r: r}
	for _, kv := range init {
		if isQuotable(kv.K) {
			pg.keys = append(pg.keys, kv.K)
		}
	}
	pg.keys = append(pg.keys, "a", "ab", "k", "k0", "k00", "k01", "k005", "k010", "m", "zz", "nokey", "")
	return pg
}

// isQuotable: can be written between single quotes in a statement (the lexer
// is byte-oriented and has no escapes).
func isQuotable(s string) bool {
	return !strings.ContainsAny(s, "'\"`")
}

func (g *predGen) lit() string {
	k := pick(g.r, g.keys)
	if g.r.Chance(0.15) && len(k) > 1 {
		k = k[:g.r.Range(1, len(k)-1)]
	}
	return k
}

func (g *predGen) keyAtom() string {
	r := g.r
	l := quote(g.lit())
	switch r.Intn(12) {
	case 0:
		return "key = " + l
	case 1:
		return l + " = key"
	case 2:
		n := r.Range(1, 5)
		ks := make([]string, n)
		for i := range ks {
			ks[i] = g.lit()
		}
		if r.Chance(0.3) {
			// the same few keys listed several times, not next to each other
			base := []string{g.lit(), g.lit(), g.lit()}
			ks = ks[:0]
			for i := 0; i < r.Range(3, 6); i++ {
				ks = append(ks, base[i%len(base)])
			}
			shuffle(r, ks)
		}
		return "key in " + inList(ks)
	case 3, 4:
		return "key ^= " + quote(prefixOf(r, g.lit()))
	case 5:
		op := pick(r, []string{">", ">=", "<", "<="})
		return "key " + op + " " + l
	case 6:
		op := pick(r, []string{">", ">=", "<", "<="})
		return l + " " + op + " key"
	case 7, 8:
		a, b := g.lit(), g.lit()
		if a > b {
			a, b = b, a
		}
		if a == b {
			b = b + "z"
		}
		return "(key between " + quote(a) + " and " + quote(b) + ")"
	case 9:
		return "key != " + l
	case 10:
		a, b := g.lit(), g.lit()
		if a > b {
			a, b = b, a
		}
		return "(key >= " + quote(a) + " & key <= " + quote(b+"9") + ")"
	default:
		return "key ~= " + quote("^"+prefixOf(r, g.lit()))
	}
}

func prefixOf(r *Rng, k string) string {
	if len(k) <= 1 {
		return k
	}
	return k[:r.Range(1, len(k))]
}

func (g *predGen) opaqueAtom() string {
	r := g.r
	switch r.Intn(8) {
	case 0:
		return "value = " + quote(pick(r, valuePoolText))
	case 1:
		return fmt.Sprintf("int(value) > %d", r.Intn(8))
	case 2:
		return "value ~= " + quote(pick(r, []string{"^v", "a", "^[0-9]+$", "l$"}))
	case 3:
		return "value ^= " + quote(pick(r, []string{"v", "va", "1", "{", ""}))
	case 4:
		return "is_int(value)"
	case 5:
		return fmt.Sprintf("strlen(value) >= %d", r.Intn(5))
	case 6:
		return "value != " + quote(pick(r, valuePoolInt))
	default:
		return fmt.Sprintf("int(value) <= %d", r.Intn(12))
	}
}

// pred builds a predicate of the given depth. keyBias is the probability that
// an atom constrains the key.
func (g *predGen) pred(depth int, keyBias float64) string {
	r := g.r
	if depth <= 0 || r.Chance(0.3) {
		if r.Chance(keyBias) {
			return g.keyAtom()
		}
		return g.opaqueAtom()
	}
	if r.Chance(0.08) {
		return "!(" + g.pred(depth-1, keyBias) + ")"
	}
	op := pick(r, []string{"&", "|", "and", "or", "&", "|"})
	return "(" + g.pred(depth-1, keyBias) + " " + op + " " + g.pred(depth-1, keyBias) + ")"
}

func topPred(g *predGen) string {
	if g.r.Chance(0.01) {
		// a long chain: many disjuncts (or conjuncts), one of them compound
		n := g.r.Range(17, 24)
		if g.r.Chance(0.3) {
			n = pick(g.r, []int{66, 70, 130, 300}) // deeper than any fixed-size stack or recursion guard
		}
		op := pick(g.r, []string{" | ", " or ", " | ", " & "})
		parts := make([]string, n)
		pointOnly := g.r.Bool() // only equalities / IN lists: the whole clause pins a literal key set
		for i := range parts {
			if pointOnly {
				if g.r.Bool() {
					parts[i] = "key = " + quote(g.lit())
				} else {
					parts[i] = "key in " + inList([]string{g.lit(), g.lit()})
				}
			} else {
				parts[i] = g.keyAtom()
			}
		}
		if pointOnly {
			parts[g.r.Intn(n)] = "(key = " + quote(g.lit()) + " & " + g.opaqueAtom() + ")"
			if g.r.Bool() {
				parts[0] = "(key = " + quote(g.lit()) + " & " + g.opaqueAtom() + ")"
			}
			return strings.Join(parts, pick(g.r, []string{" | ", " or "}))
		}
		parts[g.r.Intn(n)] = "(" + g.keyAtom() + " & " + g.opaqueAtom() + ")"
		if g.r.Bool() {
			parts[0] = "(" + g.keyAtom() + " & " + g.opaqueAtom() + ")"
		}
		return strings.Join(parts, op)
	}
	p := g.pred(g.r.Range(0, 3), 0.7)
	// strip one redundant outer pair of parentheses now and then: both forms must behave alike
	if strings.HasPrefix(p, "(") && strings.HasSuffix(p, ")") && g.r.Bool() && balancedOuter(p) {
		p = p[1 : len(p)-1]
	}
	return p
}

func balancedOuter(p string) bool {
	depth := 0
	for i := 0; i < len(p); i++ {
		switch p[i] {
		case '(':
			depth++
		case ')':
			depth--
			if depth == 0 && i != len(p)-1 {
				return false
			}
		case '\'':
			j := strings.IndexByte(p[i+1:], '\'')
			if j < 0 {
				return false
			}
			i += j + 1
		}
	}
	return depth == 0
}
