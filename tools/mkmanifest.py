#!/usr/bin/env python3
"""Regenerates /verif/MANIFEST.json from the table below (kept in one place so
the manifest stays valid and in step with DESIGN.md)."""
import json, os, sys
HERE = os.path.dirname(os.path.dirname(os.path.abspath(__file__)))

REAL = ("real code: all of github.com/c4pt0r/kvql built from /repo's working tree; "
        "simulated: storage engine behind kvql.Storage/Cursor and the calling application")

claimed = {
 "C13": dict(cat="fault_enumeration", ref="§4 C13",
   text="Single fault injected at every position of the fault-free storage-call sequence of each sampled (statement, store, batch size, drain mode) case, every applicable fault kind; SELECT/rejected statements checked for zero mutating calls. Exhaustive in fault position within a case, sampled over cases.",
   note="Trusts SimStorage as a faithful kvql.Storage (snapshot cursors, nil for missing keys); driver stops at first error; cases are sampled by seed.",
   tech="deterministic simulation: exhaustive single-fault injection over the recorded storage-call sequence"),
 "C12": dict(cat="exploration", ref="§4 C12",
   text="Seeded histories of put/remove/probe statements (expressions built from their intended values, duplicate keys, `key` in values, failing evaluations) with arbitrary extra Next/Batch polls, executed on the simulated store against a model map; every write call additionally faulted with every kind (err, err-applied, err-partial at every prefix length).",
   note="Intended values are correct by construction for the restricted expression forms; polls after an error are not examined; Put/BatchPut split not asserted.",
   tech="deterministic simulation: seeded statement histories vs reference model map, poll-schedule variation, write-fault enumeration"),
 "C11": dict(cat="exploration", ref="§4 C11",
   text="Seeded stores and put/remove/delete histories; every DELETE judged against the engine's own unlimited select (row mode, cache off) on a copy of the prior state, sliced by the harness; byte-for-byte store comparison; no Put allowed; faulted sub-check (every write call x kinds, sampled reads) with narrowed oracle deleted ⊆ selected.",
   note="Snapshot-cursor storage; reference cell is the engine's own select (relational property); cases where row and batch selects disagree are counted confounded, not judged.",
   tech="deterministic simulation: seeded histories on snapshot-cursor storage, relational oracle, fault injection with narrowed oracle"),
 "C08": dict(cat="exploration", ref="§4 C08",
   text="Grid over (family, batch size, result size, offset, count, drain mode): limited result compared with the slice of the same engine's unlimited result (tie-aware for ORDER BY; store diff for DELETE). quick samples the grid with forced coincidences; thorough enumerates it completely (exhaustive: true).",
   note="The unlimited result in the same drain mode is the reference; stores are generated so that child batches vary in size.",
   tech="deterministic simulation: chunk-size/drain-mode configuration grid, self-relational slice oracle"),
 "C18": dict(cat="exploration", ref="§4 C18",
   text="Trace invariant over the simulated storage's read trace for the canonical key-pinning WHERE shapes (literal on either side), alone, with an opaque conjunct on either side, and in pairs; Get keys inside the pinned set/region, at most one cursor key beyond it per poll and last, nothing below the region start, point reads (no cursor Next) for =/IN, no reads for clauses unsatisfiable on their face. quick samples; thorough enumerates all literal choices per shape over the alphabet {a,b,c}.",
   note="Closed bounds; one look-ahead key per poll; cursor creation/seek without reads tolerated; union of conjunct regions. The trace is a deterministic function of (statement, store, batch, mode); the simulator contributes the vantage point and generated/history-built stores.",
   tech="deterministic simulation: invariant monitor over the simulated disk's read trace"),
 "C19": dict(cat="exploration", ref="§4 C19, §10.2",
   text="Seeded schedule search: 2..16 client goroutines running real kvql code under a token scheduler that decides who runs at every storage call (entry and return) and at 20 library-internal yield points (verif hook), from per-client replayable schedules; four store topologies; half of the scenarios with per-client storage faults; binary built with -race and the token hand-off invisible to the detector, so any unsynchronised conflicting access to library state by two clients is reported deterministically. Oracles: each statement's result equals its solo-schedule result (private / shared read-only / shared read-write with per-client prefixes), and in the contended topology the history of point reads and writes of shared hot keys is linearizable against a per-key register model (porcupine).",
   note="amd64 TSO; yields only at storage calls and at the hook sites; sync.Pool inside fmt/regexp may add hidden edges; knobs fixed before clients start; solo run shares the process with the concurrent run. Race reports without kvql frames are harness defects (exit 2).",
   tech="deterministic simulation: seeded interleaving search with a race-invisible token scheduler (storage-call and library-internal yield points), race detector armed, solo-run oracle, porcupine linearizability check of the recorded history"),
 "C03": dict(cat="exploration", ref="§4 C03",
   text="Statements from a typed generator over the full language (swarm of feature families) executed twice on equal simulated stores, drained row-at-a-time and in batches, at batch sizes from 1 to beyond the result; content comparison in order (multiset inside ORDER BY ties), final store for write statements; row-error-with-batch-success, one-sided panics/non-termination and content differences are violations.",
   note="Batch-only error values tolerated (the property allows that direction); quantile not generated; ORDER BY only over uniformly typed fields; statements the planner rejects are skipped.",
   tech="deterministic simulation: drain-schedule x chunk-size configuration search, cross-configuration agreement oracle"),
 "C05": dict(cat="exploration", ref="§4 C05",
   text="Generated alias-heavy queries over stores in which rows fail the filter, executed in all cells {cache on, off} x {row, batch} at swarm-chosen batch sizes, for the query and for its alias-expanded form; cache invisibility, abbreviation, row shape and per-row point-definition sub-checks; probe counters must be non-zero in thorough runs.",
   note="Only accepted queries count; error texts not compared; expressions are kept total (no data-dependent evaluation errors) so that scan narrowing cannot legitimately change which side fails.",
   tech="deterministic simulation: cache/drain/chunk configuration search with relational (self-referential) oracles"),
}
BUILT = set(claimed)

pending = {k: "claimed in DESIGN.md; its check is still under construction in this revision, so it is not yet registered" for k in
  ["C03","C05","C08","C11","C12","C18","C19"] if k not in claimed}

na = {
 "C01": "pure function of (store, predicate): no schedule, fault, history or configuration in it; deciding it needs an independent reference evaluator of the predicate language, i.e. differential testing, not simulation (DESIGN.md §5)",
 "C02": "pure function of predicate shape and literals (planner interval algebra); needs exhaustive shape enumeration against a filtered full scan — bounded model checking / differential testing, not simulation",
 "C04": "pure function of an expression; no environment (storage, schedule, fault) is involved in constant folding",
 "C06": "crash-freedom over all byte strings; coverage-guided fuzzing territory; nothing for a scheduler or fault injector to decide",
 "C07": "pure function of the row set; needs an independent comparator as oracle; its only configuration facet {row,batch} is covered inside C03",
 "C09": "pure function; needs independent definitions of the aggregates as oracle",
 "C10": "pure function per scalar function; needs independent re-implementations as oracle",
 "C14": "pure function of statement text (its storage-side clause — no mutating call on rejection — is checked inside C13)",
 "C15": "parser round-trip; pure function of text",
 "C16": "lexer only; pure function of text",
 "C17": "error rendering; string arithmetic only",
}

def main():
    checks = []
    for pid in sorted(claimed):
        c = claimed[pid]
        checks.append({
            "property_id": pid,
            "quick_cmd": f"./run_check.sh {pid} quick",
            "thorough_cmd": f"./run_check.sh {pid} thorough",
            "evidence_file": f"/verif/evidence/{pid}.json",
            "replay_cmd_template": "./run_check.sh replay {path}",
            "engine": "simkv",
            "level_claimed": {"category": c["cat"], "text": c["text"], "design_ref": c["ref"]},
            "level_note": c["note"],
            "technique": c["tech"],
        })
    nal = [{"property_id": k, "reason": v} for k, v in sorted(na.items())]
    for k, v in sorted(pending.items()):
        nal.append({"property_id": k, "reason": v})
    m = {
        "version": 1,
        "setup_cmd": "./run_check.sh setup",
        "hooks": {
            "guard": "verif",
            "enable": "go build -tags verif (run_check.sh builds every check that way); the tag compiles simyield_verif.go (package variable kvql.SimYield, nil by default) instead of simyield_off.go (empty inlinable simYield), making the 22 one-line simYield(site) calls in the library scheduling points for C19's token scheduler. All other seams are existing interfaces (kvql.Storage/kvql.Cursor) and exported knobs (PlanBatchSize, EnableFieldCache).",
            "baseline_off_cmd": "cd /repo && go test -vet=off -count=1 ./...",
            "source_commits": ["5a5463f", "e8ae95b"],
            "add_only": True,
        },
        "engines": [{
            "name": "simkv", "path": "/verif/sim",
            "serves_properties": sorted(claimed),
            "kind_free_text": "deterministic simulator: seeded scenario generator, simulated MVCC storage with fault plan and event log, poll driver, token scheduler for concurrent clients, delta-debugging shrinker, replay files",
        }],
        "checks": checks,
        "not_applicable": nal,
        "notes": "Technique family: deterministic simulation with fault injection. " + REAL + ". See DESIGN.md.",
    }
    with open(os.path.join(HERE, "MANIFEST.json"), "w") as f:
        json.dump(m, f, indent=1)
        f.write("\n")

main()
