#!/usr/bin/env python3
import json,glob,collections,sys,re
prop=sys.argv[1]
tot={}; kinds=collections.Counter(); ex={}
for f in glob.glob('/verif/.build/out/%s/w*.json'%prop):
    d=json.load(open(f))
    for k,v in d['counters'].items(): tot[k]=tot.get(k,0)+v
    for fd in (d['found'] or []):
        v=fd['violation']
        sig=v['sig']
        m=re.search(r'(err=.*|panic=.*)$',sig)
        key=(v['kind'], m.group(1) if m else '')
        kinds[key]+=1; ex.setdefault(key,v['detail'])
print(json.dumps({k:v for k,v in tot.items() if not k.startswith('fault_')},indent=1,sort_keys=True))
for k,c in kinds.most_common(60): print(c,k,'\n     ',ex[k][:int(sys.argv[2]) if len(sys.argv)>2 else 400])
