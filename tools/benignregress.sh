#!/bin/bash
# Re-runs every property-preserving change under /verif/benign against all eight checks (quick tier),
# four changes at a time, each in its own scratch worktree. Every line must end with all ":0".
# usage: tools/benignregress.sh [id-glob]
cd /verif
GLOB="${1:-*}"
ls -d benign/$GLOB/ | xargs -P 4 -I{} bash -c 'd={}; id=$(basename $d); tools/benigncheck.sh /verif/$d $id 2>&1 | tail -4'
