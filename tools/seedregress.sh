#!/bin/bash
# Re-runs every seeded change under /verif/seeded against the checks recorded in its meta.json (caught_by),
# on /repo's current HEAD. A patch that no longer applies (the code it touched was repaired since) is reported as such.
export GOFLAGS=-mod=mod GOPROXY=off GOSUMDB=off GOTOOLCHAIN=local
cd /verif
for d in /verif/seeded/*/; do
  id=$(basename "$d")
  props=$(python3 -c "import json;print(' '.join(json.load(open('$d/meta.json')).get('caught_by') or []))")
  [ -z "$props" ] && { echo "$id: no check recorded"; continue; }
  if ! git -C /repo apply --check "$d/patch.diff" 2>/dev/null; then echo "$id: patch no longer applies to HEAD"; continue; fi
  git -C /repo apply "$d/patch.diff"
  res=""
  for P in $props; do
    RACE=""; [ "$P" = "C19" ] && RACE="-race"
    ( cd /verif/sim && go build -tags verif $RACE -o /verif/.build/simkv-seed . ) || { res="$res $P:buildfail"; continue; }
    VERIF_WATCHDOG_S=600 VERIF_DIR=/verif ./.build/simkv-seed check -prop "$P" -tier quick -no-evidence >/tmp/wt/regress.out 2>&1
    rc=$?
    res="$res $P:rc=$rc"
  done
  git -C /repo checkout -- .
  echo "$id:$res"
done
