#!/bin/bash
# Re-runs every seeded change under /verif/seeded against the checks recorded in its meta.json (caught_by),
# on /repo's current HEAD, each in its own scratch worktree (the checks are built against the patched
# worktree; /repo is not touched). A patch that no longer applies (the code it touched was repaired since)
# is reported as such. Seeds are grouped by their first recorded check and the groups run in parallel.
# usage: tools/seedregress.sh [id-glob]      e.g. tools/seedregress.sh 'C13-*'
export GOFLAGS=-mod=mod GOPROXY=off GOSUMDB=off GOTOOLCHAIN=local
cd /verif
GLOB="${1:-*}"
one() { # $1 = seeded dir
  local d="$1" id props WT MOD res P RACE rc
  id=$(basename "$d")
  props=$(python3 -c "import json;print(' '.join(json.load(open('$d/meta.json')).get('caught_by') or []))")
  [ -z "$props" ] && { echo "$id: no check recorded"; return; }
  WT=/tmp/wt/regress-$id
  git -C /repo worktree remove --force "$WT" 2>/dev/null
  git -C /repo worktree add -q --detach "$WT" HEAD || { echo "$id: worktree failed"; return; }
  if ! git -C "$WT" apply "$d/patch.diff" 2>/dev/null; then echo "$id: patch no longer applies to HEAD"; git -C /repo worktree remove --force "$WT"; return; fi
  MOD=/verif/.build/regress-$id.mod
  sed "s#=> /repo#=> $WT#" /verif/sim/go.mod > "$MOD"
  cat "$WT/go.sum" /verif/sim/go.sum.extra | sort -u > "${MOD%.mod}.sum"
  res=""
  for P in $props; do
    RACE=""; [ "$P" = "C19" ] && RACE="-race"
    ( cd /verif/sim && go build -modfile="$MOD" -tags verif $RACE -o /verif/.build/simkv-regress-$id . ) || { res="$res $P:buildfail"; continue; }
    VERIF_WATCHDOG_S=1200 VERIF_DIR=/verif ./.build/simkv-regress-$id check -prop "$P" -tier quick -no-evidence >/dev/null 2>&1
    rc=$?
    res="$res $P:rc=$rc"
  done
  rm -f "$MOD" "${MOD%.mod}.sum" /verif/.build/simkv-regress-$id
  git -C /repo worktree remove --force "$WT"
  echo "$id:$res"
}
mkdir -p /verif/.build /tmp/wt
for G in C03 C05 C08 C11 C12 C13 C18 C19; do
  ( for d in /verif/seeded/$GLOB/; do
      [ -f "$d/meta.json" ] || continue
      first=$(python3 -c "import json;c=json.load(open('$d/meta.json')).get('caught_by') or ['-'];print(c[0])")
      [ "$first" = "$G" ] && one "$d"
    done ) &
done
( for d in /verif/seeded/$GLOB/; do
    [ -f "$d/meta.json" ] || continue
    first=$(python3 -c "import json;c=json.load(open('$d/meta.json')).get('caught_by') or ['-'];print(c[0])")
    [ "$first" = "-" ] && echo "$(basename $d): no check recorded"
  done )
wait
