#!/bin/bash
# usage: tools/seedsweep.sh <from> <to> [props...]   quick tier of each property at each VERIF_SEED; prints only non-clean runs
export GOFLAGS=-mod=mod GOPROXY=off GOSUMDB=off GOTOOLCHAIN=local
FROM=$1; TO=$2; shift 2
PROPS="${*:-C03 C05 C08 C11 C12 C13 C18}"
cd "$(dirname "$0")/.." || exit 2
( cd sim && go build -tags verif -o ../.build/simkv-sweep . ) || exit 2
for s in $(seq $FROM $TO); do
  for p in $PROPS; do
    out=$(VERIF_SEED=$s VERIF_DIR=$(pwd) ./.build/simkv-sweep check -prop $p -tier quick -no-evidence 2>&1)
    rc=$?
    if [ $rc -ne 0 ]; then echo "seed=$s prop=$p rc=$rc"; echo "$out" | grep -A1 "^VIOLATION\|INFRA" | cut -c1-900 | head -12; fi
  done
done
echo "sweep $FROM..$TO done"
