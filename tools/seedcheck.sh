#!/bin/bash
# usage: tools/seedcheck.sh <src-dir-with-patch.diff,demo_test.go,meta.json> <seed-id> <prop> [more props...]
# Confirms a seeded change in a scratch worktree (suite passes, demo fails with / passes without),
# runs the named checks against it in /repo (applied, then reverted), and files it under /verif/seeded/<seed-id>/.
set -u
SRC="$1"; ID="$2"; shift 2; PROPS="$*"
export GOFLAGS=-mod=mod GOPROXY=off GOSUMDB=off GOTOOLCHAIN=local
DEMOFLAGS=""; case "$PROPS" in *C19*) DEMOFLAGS="-race";; esac
WT=/tmp/wt/confirm-$ID
git -C /repo worktree remove --force "$WT" 2>/dev/null
git -C /repo worktree add -q --detach "$WT" HEAD || exit 3
res() { echo "$1"; }
cd "$WT"
cp "$SRC/demo_test.go" ./zz_demo_test.go
clean_demo=$(go test $DEMOFLAGS -vet=off -count=1 -run 'TestSeeded' . 2>&1 | tail -1)
rm -f zz_demo_test.go
if ! git apply "$SRC/patch.diff" 2>/tmp/wt/apply.err; then
  echo "RESULT $ID: patch does not apply to HEAD: $(head -2 /tmp/wt/apply.err)"; cd /; git -C /repo worktree remove --force "$WT"; exit 4
fi
suite=$(go build ./... 2>&1 | tail -1; go test -vet=off -count=1 . 2>&1 | tail -1)
cp "$SRC/demo_test.go" ./zz_demo_test.go
mut_demo=$(go test $DEMOFLAGS -vet=off -count=1 -run 'TestSeeded' . 2>&1 | tail -1)
echo "  clean demo : $clean_demo"
echo "  suite w/mut: $suite"
echo "  mut demo   : $mut_demo"
ok=1
case "$clean_demo" in ok*) ;; *) ok=0;; esac
case "$suite" in ok*) ;; *) ok=0;; esac
case "$mut_demo" in FAIL*|*FAIL*) ;; *) ok=0;; esac
if [ $ok -ne 1 ]; then echo "RESULT $ID: NOT CONFIRMED"; cd /; git -C /repo worktree remove --force "$WT"; exit 5; fi
# detection: the checks are built against the patched scratch worktree (same effect as applying the
# patch to /repo and reverting it, without touching /repo while other runs build from it)
rm -f zz_demo_test.go
MOD=/verif/.build/seed-$ID.mod
mkdir -p /verif/.build
sed "s#=> /repo#=> $WT#" /verif/sim/go.mod > "$MOD"
cat "$WT/go.sum" /verif/sim/go.sum.extra | sort -u > "${MOD%.mod}.sum"
caught=""
for P in $PROPS; do
  RACE=""; [ "$P" = "C19" ] && RACE="-race"
  ( cd /verif/sim && go build -modfile="$MOD" -tags verif $RACE -o /verif/.build/simkv-seed-$ID . ) || { echo "RESULT $ID: harness build failed"; cd /; git -C /repo worktree remove --force "$WT"; exit 7; }
  out=$(cd /verif && VERIF_WATCHDOG_S=${WD:-400} VERIF_DIR=/verif ./.build/simkv-seed-$ID check -prop "$P" -tier "${TIER:-quick}" -no-evidence 2>&1)
  rc=$?
  nv=$(echo "$out" | grep -c '^VIOLATION')
  first=$(echo "$out" | grep -A1 '^VIOLATION' | grep 'kind=' | head -1 | cut -c1-260)
  echo "  check $P: rc=$rc violations=$nv $first"
  [ $rc -eq 1 ] && caught="$caught $P"
done
rm -f "$MOD" "${MOD%.mod}.sum" /verif/.build/simkv-seed-$ID
cd /; git -C /repo worktree remove --force "$WT"
mkdir -p /verif/seeded/$ID
cp "$SRC/patch.diff" "$SRC/demo_test.go" /verif/seeded/$ID/
python3 - "$SRC/meta.json" "/verif/seeded/$ID/meta.json" "$ID" "$caught" "$PROPS" <<'PY'
import json,sys
src,dst,sid,caught,props=sys.argv[1:6]
try: m=json.load(open(src))
except Exception: m={}
m['id']=sid
m['confirmed']={'existing_suite_passes_with_change':True,'demo_fails_with_change':True,'demo_passes_without':True,
  'how':'scratch worktree of /repo HEAD: go test -vet=off -count=1 . with and without patch.diff; demo copied in as zz_demo_test.go, -run TestSeeded'}
m['checks_run']=props.split()
m['caught_by']=caught.split()
json.dump(m,open(dst,'w'),indent=1)
PY
echo "RESULT $ID: confirmed; caught_by=[$caught ]"
