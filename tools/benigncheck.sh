#!/bin/bash
# usage: tools/benigncheck.sh <dir-with-patch.diff> <id> [props...]  — a property-PRESERVING change: every check must stay silent (rc=0)
# The change is applied in a scratch worktree of /repo HEAD and the checks are built against that worktree
# (same effect as applying it to /repo and reverting, without touching /repo while other runs build from it).
D="$1"; ID="$2"; shift 2
PROPS="${*:-C03 C05 C08 C11 C12 C13 C18 C19}"
export GOFLAGS=-mod=mod GOPROXY=off GOSUMDB=off GOTOOLCHAIN=local
WT=/tmp/wt/benign-$ID
git -C /repo worktree remove --force "$WT" 2>/dev/null
git -C /repo worktree add -q --detach "$WT" HEAD || exit 3
git -C "$WT" apply "$D/patch.diff" 2>/dev/null || { echo "$ID: patch does not apply"; git -C /repo worktree remove --force "$WT"; exit 3; }
suite=$(cd "$WT" && go build ./... 2>&1 | tail -1; go test -vet=off -count=1 . 2>&1 | tail -1)
MOD=/verif/.build/benign-$ID.mod
mkdir -p /verif/.build
sed "s#=> /repo#=> $WT#" /verif/sim/go.mod > "$MOD"
cat "$WT/go.sum" /verif/sim/go.sum.extra | sort -u > "${MOD%.mod}.sum"
res=""
for P in $PROPS; do
  R=""; [ "$P" = "C19" ] && R="-race"
  ( cd /verif/sim && go build -modfile="$MOD" -tags verif $R -o /verif/.build/simkv-benign-$ID . ) || { res="$res $P:buildfail"; continue; }
  out=$(cd /verif && VERIF_WATCHDOG_S=1500 VERIF_DIR=/verif ./.build/simkv-benign-$ID check -prop $P -tier quick -no-evidence 2>&1); rc=$?
  res="$res $P:$rc"
  if [ $rc -ne 0 ]; then echo "   --- $ID $P rc=$rc"; echo "$out" | grep -A1 "^VIOLATION\|INFRA" | head -6 | cut -c1-700; fi
done
rm -f "$MOD" "${MOD%.mod}.sum" /verif/.build/simkv-benign-$ID
git -C /repo worktree remove --force "$WT"
echo "$ID suite=[$suite] ->$res"
