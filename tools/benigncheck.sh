#!/bin/bash
# usage: tools/benigncheck.sh <dir-with-patch.diff> <id> [props...]  — a property-PRESERVING change: every check must stay silent (rc=0)
D="$1"; ID="$2"; shift 2
PROPS="${*:-C03 C05 C08 C11 C12 C13 C18 C19}"
export GOFLAGS=-mod=mod GOPROXY=off GOSUMDB=off GOTOOLCHAIN=local
git -C /repo apply --check "$D/patch.diff" 2>/dev/null || { echo "$ID: patch does not apply"; exit 3; }
git -C /repo apply "$D/patch.diff"
suite=$(cd /repo && go build ./... 2>&1 | tail -1; go test -vet=off -count=1 . 2>&1 | tail -1)
res=""
for P in $PROPS; do
  R=""; [ "$P" = "C19" ] && R="-race"
  ( cd /verif/sim && go build -tags verif $R -o /verif/.build/simkv-benign . ) || { res="$res $P:buildfail"; continue; }
  out=$(cd /verif && VERIF_WATCHDOG_S=900 VERIF_DIR=/verif ./.build/simkv-benign check -prop $P -tier quick -no-evidence 2>&1); rc=$?
  res="$res $P:$rc"
  if [ $rc -ne 0 ]; then echo "   --- $ID $P rc=$rc"; echo "$out" | grep -A1 "^VIOLATION\|INFRA" | head -6 | cut -c1-700; fi
done
git -C /repo checkout -- .
echo "$ID suite=[$suite] ->$res"
