#!/bin/bash
# usage: tools/muttest.sh <patchfile> <prop> [tier]   apply patch to /repo, run pinned tests + check, revert
set -u
P="$1"; PROP="$2"; TIER="${3:-quick}"
export GOFLAGS=-mod=mod GOPROXY=off GOSUMDB=off GOTOOLCHAIN=local
cd /repo && git apply "$P" || { echo "patch does not apply"; exit 3; }
( cd /repo && go build ./... && go test -vet=off -count=1 ./... 2>&1 | tail -1 )
RACE=""; [ "$PROP" = "C19" ] && RACE="-race"
cd /verif/sim && go build -tags verif $RACE -o /verif/.build/simkv-mut . && cd /verif && VERIF_WATCHDOG_S=${WD:-300} VERIF_DIR=/verif ./.build/simkv-mut check -prop "$PROP" -tier "$TIER" -no-evidence 2>&1 | grep -v "^  kind" | sort | uniq -c | sort -rn | head -${LINES_MAX:-8}
git -C /repo checkout -- .
