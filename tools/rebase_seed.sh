#!/bin/bash
# usage: tools/rebase_seed.sh <seed-id>   re-applies a seeded patch that no longer applies cleanly (context drift) with fuzz,
# re-confirms it (suite passes, demo fails with / passes without) and rewrites patch.diff against HEAD.
ID="$1"; D=/verif/seeded/$ID
export GOFLAGS=-mod=mod GOPROXY=off GOSUMDB=off GOTOOLCHAIN=local
FL=""; case "$ID" in C19*) FL="-race";; esac
WT=/tmp/wt/rebase-$ID
git -C /repo worktree remove --force "$WT" 2>/dev/null
git -C /repo worktree add -q --detach "$WT" HEAD || exit 3
cd "$WT"
if ! patch -p1 --fuzz=3 --no-backup-if-mismatch < "$D/patch.diff" >/tmp/wt/patch.out 2>&1; then echo "$ID: does not apply even with fuzz"; cat /tmp/wt/patch.out | tail -3; cd /; git -C /repo worktree remove --force "$WT"; exit 4; fi
find . -name '*.orig' -delete; find . -name '*.rej' -delete
suite=$(go build ./... 2>&1 | tail -1; go test -vet=off -count=1 . 2>&1 | tail -1)
git diff > /tmp/wt/rebased.diff
if [ -f "$D/demo_test.go" ]; then
  cp "$D/demo_test.go" zz_demo_test.go
  mut=$(go test $FL -vet=off -count=1 -run TestSeeded . 2>&1 | tail -1)
  git checkout -q -- . ; clean=$(go test $FL -vet=off -count=1 -run TestSeeded . 2>&1 | tail -1)
else mut="FAIL(no demo)"; clean="ok(no demo)"; fi
cd /; git -C /repo worktree remove --force "$WT"
echo "$ID: suite=[$suite] demo_with=[$mut] demo_without=[$clean]"
case "$suite" in ok*) ;; *) exit 5;; esac
case "$mut" in *FAIL*) ;; *) exit 5;; esac
case "$clean" in ok*) ;; *) exit 5;; esac
cp /tmp/wt/rebased.diff "$D/patch.diff"; echo "$ID: patch.diff rebased onto $(git -C /repo rev-parse --short HEAD)"
